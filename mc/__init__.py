"""Bounded exhaustive exploration machinery for SFC_models (see /verif/DESIGN.md)."""
