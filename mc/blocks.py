"""
blocks.py - equation-block grammar (the "inputs" alphabet of the solver / parser / generator properties).

A Block is a plain description: simultaneous equations, lag definitions, initial conditions, exogenous paths,
horizon, tolerance.  text() renders it with the documented line forms.  The enumerators yield every block of a
menu-per-variable product; names are fixed (x, y, z, w) - no code path of the parser or solver looks at spellings
other than reserved words (C11) and the section marker (C14).
"""
import itertools
import math


class Block(object):
    def __init__(self, eqs=(), lags=(), ics=None, exos=(), maxtime=3, tol=None, extra_lines=()):
        self.eqs = list(eqs)          # [(var, rhs text)]
        self.lags = list(lags)        # [(lag var, source var)]
        self.ics = dict(ics or {})    # var -> rhs text
        self.exos = list(exos)        # [(var, rhs text)]
        self.maxtime = maxtime
        self.tol = tol
        self.extra = list(extra_lines)

    def text(self, lag_spelling='(k-1)'):
        lines = []
        for v, rhs in self.eqs:
            lines.append('%s = %s' % (v, rhs))
        for lv, src in self.lags:
            lines.append('%s = %s%s' % (lv, src, lag_spelling))
        for v, rhs in sorted(self.ics.items()):
            lines.append('%s(0) = %s' % (v, rhs))
        lines.extend(self.extra)
        if self.exos:
            lines.append('# exogenous variables')
            for v, rhs in self.exos:
                lines.append('%s = %s' % (v, rhs))
        if self.maxtime is not None:
            lines.append('MaxTime = %d' % self.maxtime)
        if self.tol is not None:
            lines.append('Err_Tolerance = %s' % self.tol)
        return '\n'.join(lines)

    def key(self):
        return (tuple(self.eqs), tuple(self.lags), tuple(sorted(self.ics.items())), tuple(self.exos), self.maxtime,
                self.tol, tuple(self.extra))

    def as_json(self):
        return {'eqs': [list(x) for x in self.eqs], 'lags': [list(x) for x in self.lags], 'ics': self.ics,
                'exos': [list(x) for x in self.exos], 'maxtime': self.maxtime, 'tol': self.tol, 'extra': self.extra}

    @staticmethod
    def from_json(d):
        return Block([tuple(x) for x in d['eqs']], [tuple(x) for x in d['lags']], d['ics'],
                     [tuple(x) for x in d['exos']], d['maxtime'], d['tol'], d.get('extra', ()))

    def variables(self):
        return [v for v, r in self.eqs]


def num(c):
    """Render a coefficient the way a user would write it."""
    if isinstance(c, str):
        return c
    if c == int(c) and abs(c) < 1e6:
        return '%d.' % int(c) if c >= 0 else '(-%d.)' % int(-c)
    s = repr(float(c))
    return s if c >= 0 else '(%s)' % s


def lin(terms, const=None):
    """terms: [(coef, var)] -> 'a*u + b*w + c' text."""
    parts = []
    for a, u in terms:
        if a == 1:
            parts.append(u)
        else:
            parts.append('%s*%s' % (num(a), u))
    if const is not None and (const != 0 or not parts):
        parts.append(num(const))
    return ' + '.join(parts) if parts else '0.'


NAMES = ['x', 'y', 'z', 'w', 'v']


def rhs_menu(i, n, coefs, consts, allow_self=True, two_term=True, alias=True):
    """All right-hand sides for variable i of n: (rhs text, {var: coef} dict, const)."""
    me = NAMES[i]
    others = [NAMES[j] for j in range(n) if j != i]
    out = []
    for c in consts:
        out.append((num(c), {}, c))
    if alias:
        for u in others:
            out.append((u, {u: 1.0}, 0.0))
    srcs = others + ([me] if allow_self else [])
    for u in srcs:
        for a in coefs:
            for c in consts[:2]:
                out.append((lin([(a, u)], c), {u: a}, c))
    if two_term and len(srcs) >= 2:
        for u, w2 in itertools.combinations(srcs, 2):
            for a in coefs[:3]:
                for b in coefs[:3]:
                    out.append((lin([(a, u), (b, w2)], consts[1] if len(consts) > 1 else 0.), {u: a, w2: b},
                                consts[1] if len(consts) > 1 else 0.))
    return out


def row_sum(coefd):
    return sum(abs(a) for a in coefd.values())
