"""
core.py - driver shared by all property checks.

A property module (props/cNN.py) provides

    ID, LEVEL ('model_checking' | 'exploration'), RULE (str), ASSUMPTIONS (list of str), BOUNDS (dict tier -> dict)
    units(tier)            -> list of JSON-able work units; the union of all units is the finite space explored
    run_unit(unit, tier)   -> UnitResult-like dict (see new_result()); runs the REAL library code on every case
    replay(case)           -> list of violation dicts for one stored case (used by ./check --replay)

The driver runs every unit (16 processes, deterministic partition), merges the counters, decides which
violations are listed known findings, writes replay files and the evidence file, prints the verdict lines.
Nothing here samples: VERIF_SEED only rotates the order in which units are visited and which explored
cases are copied into coverage.samples.
"""
import hashlib
import json
import multiprocessing
import os
import sys
import time
import traceback

VERIF = os.path.dirname(os.path.dirname(os.path.abspath(__file__)))
REPO = os.environ.get('SFC_REPO', '/repo')


def setup_repo_path():
    """Import sfc_models from the working tree under test (never from an installed copy)."""
    sys.dont_write_bytecode = True
    if sys.path[0] != REPO:
        sys.path.insert(0, REPO)
    import warnings
    warnings.simplefilter('ignore')
    import sfc_models
    got = os.path.dirname(os.path.dirname(os.path.abspath(sfc_models.__file__)))
    if os.path.realpath(got) != os.path.realpath(REPO):
        raise RuntimeError('INTERNAL: sfc_models imported from %s, expected %s' % (got, REPO))


def new_result():
    return {
        'evaluations': 0,        # cases executed against the implementation
        'nontrivial': 0,         # distinct cases that exercised the property's antecedent
        'states': 0,             # model_checking: distinct states visited
        'transitions': 0,        # model_checking: transitions executed on the real code
        'traces': 0,             # traces (histories) whose every step was compared with the reference
        'outcomes': {},          # outcome label -> count  (vacuity guard: distinct observed outcomes)
        'violations': [],        # [{'key':..., 'what':..., 'case':...}]
        'indeterminate': 0,      # three-valued oracle: undecided cases (never an alarm)
        'samples': [],           # a few explored cases, written out
        'counters': {},          # free-form named counters
        'digest': '',            # sha256 over the case keys of this unit
        'max_depth': 0,
    }


class Digest(object):
    def __init__(self):
        self.h = hashlib.sha256()

    def add(self, obj):
        self.h.update(repr(obj).encode('utf-8'))
        self.h.update(b'\n')

    def hex(self):
        return self.h.hexdigest()


def bump(d, key, n=1):
    d[key] = d.get(key, 0) + n


def violation(key, what, case):
    return {'key': key, 'what': what, 'case': case}


def raised_inside_library(tb):
    """(file, function, line) of the innermost frame if the exception was raised by code of the tree under test."""
    last = None
    while tb is not None:
        last = tb
        tb = tb.tb_next
    if last is None:
        return None
    fn = os.path.realpath(last.tb_frame.f_code.co_filename)
    if fn.startswith(os.path.realpath(REPO) + os.sep):
        return os.path.relpath(fn, os.path.realpath(REPO)), last.tb_frame.f_code.co_name, last.tb_lineno
    return None


def _worker(args):
    modname, idx, unit, tier = args
    try:
        mod = __import__('props.' + modname, fromlist=['x'])
        t0 = time.time()
        res = mod.run_unit(unit, tier)
        res['wall'] = time.time() - t0
        return idx, res, None
    except Exception as e:
        where = raised_inside_library(sys.exc_info()[2])
        if where is not None:
            # the library raised where the harness (which runs clean on the unchanged tree) does not expect an exception:
            # that is an observation about the code under test, not a harness fault
            res = new_result()
            res['evaluations'] = 1
            res['digest'] = 'crashed'
            res['violations'].append(violation(
                'unexpected-exception:%s:%s' % (type(e).__name__, where[1]),
                'library raised %s: %s in %s:%d (%s) while the harness was exploring this unit' % (
                    type(e).__name__, str(e)[:120], where[0], where[2], where[1]),
                {'harness_unit': unit, 'tier': tier}))
            return idx, res, None
        return idx, None, 'unit %r\n%s' % (unit, traceback.format_exc())


def load_known():
    path = os.path.join(VERIF, 'known_findings.json')
    if not os.path.exists(path):
        return []
    with open(path) as f:
        return json.load(f).get('findings', [])


def case_digest(v):
    return hashlib.sha256(json.dumps([v['key'], v['case']], sort_keys=True, default=repr).encode()).hexdigest()[:16]


def run_property(modname, tier, seed, nproc=None):
    setup_repo_path()
    mod = __import__('props.' + modname, fromlist=['x'])
    pid = mod.ID
    t0 = time.time()
    units = list(mod.units(tier))
    order = list(range(len(units)))
    if len(order) > 1:
        rot = seed % len(order)
        order = order[rot:] + order[:rot]
    nproc = nproc or int(os.environ.get('VERIF_NPROC', '16'))
    nproc = max(1, min(nproc, len(units)))
    results = [None] * len(units)
    errors = []
    jobs = [(modname, i, units[i], tier) for i in order]
    if nproc == 1:
        it = map(_worker, jobs)
        pool = None
    else:
        ctx = multiprocessing.get_context('fork')
        pool = ctx.Pool(nproc)
        it = pool.imap_unordered(_worker, jobs, 1)
    for idx, res, err in it:
        if err is not None:
            errors.append(err)
        else:
            results[idx] = res
    if pool is not None:
        pool.close()
        pool.join()
    if errors:
        print('INTERNAL: %d unit(s) crashed in the harness; first:\n%s' % (len(errors), errors[0]))
        return 2
    # ---- merge (in unit order: independent of scheduling and seed)
    tot = new_result()
    dig = Digest()
    for r in results:
        for k in ('evaluations', 'nontrivial', 'states', 'transitions', 'traces', 'indeterminate'):
            tot[k] += r[k]
        for k, v in r['outcomes'].items():
            bump(tot['outcomes'], k, v)
        for k, v in r['counters'].items():
            if isinstance(v, (int, float)):
                bump(tot['counters'], k, v)
            else:
                tot['counters'][k] = v
        tot['violations'].extend(r['violations'])
        tot['max_depth'] = max(tot['max_depth'], r.get('max_depth', 0))
        dig.add(r['digest'])
    # samples: pick from units chosen by the seed
    samples = []
    if results:
        n = len(results)
        for j in range(n):
            r = results[(seed + j * 7) % n]
            for s in r['samples'][:2]:
                if len(samples) < 6 and s not in samples:
                    samples.append(s)
            if len(samples) >= 6:
                break
    # ---- verdicts
    known = [k for k in load_known() if k.get('property') == pid and k.get('status') == 'known']
    known_keys = dict((k['key'], k) for k in known)
    printed_known = set()
    new_viol = []
    nknown = 0
    for v in tot['violations']:
        if v['key'] in known_keys:
            nknown += 1
            if v['key'] not in printed_known:
                printed_known.add(v['key'])
                print('KNOWN-FINDING: property=%s %s [%s]' % (pid, known_keys[v['key']].get('what', ''), v['key']))
        else:
            new_viol.append(v)
    scratch = os.environ.get('VERIF_NOEVIDENCE') == '1'   # mutant runs: leave /verif/evidence and /verif/replays alone
    rdir = os.path.join('/var/tmp/sfcv-replays' if scratch else os.path.join(VERIF, 'replays'), pid)
    written = {}
    for v in new_viol:
        if v['key'] in written and written[v['key']] >= 3:
            continue
        if len(written) >= 12 and v['key'] not in written:
            continue
        os.makedirs(rdir, exist_ok=True)
        path = os.path.join(rdir, case_digest(v) + '.json')
        with open(path, 'w') as f:
            json.dump({'property': pid, 'module': modname, 'key': v['key'], 'what': v['what'], 'case': v['case']},
                      f, indent=1, default=repr)
        bump(written, v['key'])
        print('VIOLATION property=%s replay=%s' % (pid, path))
        print('  key=%s  %s' % (v['key'], v['what'][:300]))
    wall = time.time() - t0
    bounds = getattr(mod, 'BOUNDS', {}).get(tier, {})
    cov = {
        'exhaustive': True,
        'rule': mod.RULE,
        'bounds': bounds,
        'units': len(units),
        'evaluations': tot['evaluations'],
        'distinct_nontrivial': tot['nontrivial'],
        'distinct_outcomes': len(tot['outcomes']),
        'outcomes': dict(sorted(tot['outcomes'].items(), key=lambda kv: -kv[1])[:40]),
        'indeterminate': tot['indeterminate'],
        'space_digest': dig.hex(),
        'known_finding_hits': nknown,
        'counters': tot['counters'],
        'samples': samples,
    }
    if mod.LEVEL == 'model_checking':
        cov['states'] = tot['states']
        cov['transitions'] = tot['transitions']
        cov['traces_validated_against_impl'] = tot['traces']
        cov['max_depth'] = tot['max_depth']
    if hasattr(mod, 'CAPS_HIT'):
        cov['caps_hit'] = mod.CAPS_HIT
    ev = {
        'property_id': pid, 'tier': tier, 'seed': seed, 'level': mod.LEVEL, 'coverage': cov,
        'assumptions': list(mod.ASSUMPTIONS), 'wall_s': round(wall, 2), 'violations': len(new_viol),
        'repo': REPO,
    }
    if not scratch:
        os.makedirs(os.path.join(VERIF, 'evidence'), exist_ok=True)
        with open(os.path.join(VERIF, 'evidence', pid + '.json'), 'w') as f:
            json.dump(ev, f, indent=1, default=repr)
    line = '%s %s: units=%d evaluations=%d nontrivial=%d outcomes=%d indeterminate=%d' % (
        pid, tier, len(units), tot['evaluations'], tot['nontrivial'], len(tot['outcomes']), tot['indeterminate'])
    if mod.LEVEL == 'model_checking':
        line += ' states=%d transitions=%d traces=%d' % (tot['states'], tot['transitions'], tot['traces'])
    line += ' violations=%d known=%d wall=%.1fs' % (len(new_viol), nknown, wall)
    print(line)
    return 1 if new_viol else 0


def run_replay(path):
    setup_repo_path()
    with open(path) as f:
        rec = json.load(f)
    mod = __import__('props.' + rec['module'], fromlist=['x'])
    if isinstance(rec['case'], dict) and 'harness_unit' in rec['case']:
        # the stored case is a whole work unit during which the library raised unexpectedly
        idx, res, err = _worker((rec['module'], 0, rec['case']['harness_unit'], rec['case'].get('tier', 'quick')))
        if err is not None:
            print('INTERNAL: %s' % err)
            return 2
        viols = res['violations']
    else:
        viols = mod.replay(rec['case'])
    if viols:
        for v in viols:
            print('VIOLATION property=%s replay=%s' % (rec['property'], path))
            print('  key=%s  %s' % (v['key'], v['what'][:600]))
        return 1
    print('replay: property %s holds on this case' % rec['property'])
    return 0


# ---------------------------------------------------------------------------------------------
# watchdog for code under test that may not terminate (used by the checks that run the solver on hostile input)

class WorkBudgetExceeded(BaseException):
    """Raised inside the code under test when a case exceeds its wall-clock budget (BaseException on purpose:
    the library's own 'except Exception' handlers must not swallow it)."""


def with_deadline(seconds, fn, *args, **kw):
    import signal

    def handler(signum, frame):
        raise WorkBudgetExceeded()
    old = signal.signal(signal.SIGALRM, handler)
    signal.setitimer(signal.ITIMER_REAL, seconds)
    try:
        return fn(*args, **kw)
    finally:
        signal.setitimer(signal.ITIMER_REAL, 0)
        signal.signal(signal.SIGALRM, old)
