"""
exact.py - independent reader of equation-block text and exact rational evaluator / affine solver.

Shares no code with sfc_models (only the stdlib: ast, fractions, re).  Written from the documented line
forms of an equation block:

    lhs = rhs  # comment            simultaneous equation
    X(0) = v                        initial condition
    Y = X(k-1) | X(t-1) | X (k -1 ) lagged variable
    # ... exogenous ...             section marker (comment-only line or code containing the word)
    name = [list expression]        exogenous path (after the marker)
    MaxTime = n, Err_Tolerance = x  run parameters
"""
import ast
import re
from fractions import Fraction


class NonAffine(Exception):
    pass


class Unsupported(Exception):
    pass


class Indeterminate(Exception):
    pass


class Inconsistent(Exception):
    pass


LAG_RE = re.compile(r'^\s*([A-Za-z_][A-Za-z_0-9]*)\s*\(\s*[kt]\s*-\s*1\s*\)\s*$')
IC_RE = re.compile(r'^\s*([A-Za-z_][A-Za-z_0-9]*)\s*\(\s*0\s*\)\s*$')
NAME_RE = re.compile(r'^[A-Za-z_][A-Za-z_0-9]*$')


class Block(object):
    """Result of reading an equation block."""

    def __init__(self):
        self.endo = []       # [(lhs, rhs)] in text order
        self.lagged = []     # [(lhs, source)]
        self.ic = {}         # var -> rhs text
        self.exo = []        # [(lhs, rhs)]
        self.maxtime = None
        self.tol = None
        self.malformed = []  # code parts that are not 'a = b'
        self.comments = {}   # lhs -> comment text

    def lhs_list(self):
        return [x[0] for x in self.endo] + [x[0] for x in self.lagged] + [x[0] for x in self.exo]


def split_comment(line):
    pos = line.find('#')
    if pos == -1:
        return line, None
    return line[:pos], line[pos + 1:]


def read_block(text):
    """Classify every line of an equation block (comment stripped first)."""
    b = Block()
    mode = 'endo'
    for raw in text.split('\n'):
        code, comment = split_comment(raw)
        code = code.strip()
        if code == '':
            if comment is not None and 'exogenous' in comment.lower():
                mode = 'exo'
            continue
        if 'exogenous' in code.lower():
            mode = 'exo'
            continue
        parts = code.split('=')
        if len(parts) != 2:
            b.malformed.append(code)
            continue
        lhs = parts[0].strip()
        rhs = parts[1].strip()
        if lhs == 'MaxTime':
            b.maxtime = int(rhs)
            continue
        if lhs == 'Err_Tolerance':
            b.tol = rhs
            continue
        if comment is not None:
            b.comments[lhs] = comment.strip()
        if mode == 'exo':
            b.exo.append((lhs, rhs))
            continue
        m = IC_RE.match(lhs)
        if m:
            b.ic[m.group(1)] = rhs
            continue
        m = LAG_RE.match(rhs)
        if m:
            b.lagged.append((lhs, m.group(1)))
            continue
        b.endo.append((lhs, rhs))
    return b


def names_in(expr):
    """NAME-shaped tokens of an expression (own scanner: identifiers not inside string quotes)."""
    out = []
    for m in re.finditer(r'[A-Za-z_][A-Za-z_0-9]*|[0-9]*\.?[0-9]+(?:[eE][-+]?[0-9]+)?|\S', expr):
        tok = m.group(0)
        if NAME_RE.match(tok):
            out.append(tok)
    return out


# ---------------------------------------------------------------------------------------------
# Affine arithmetic over Fractions

class Aff(object):
    """const + sum coeff*unknown."""
    __slots__ = ('c', 't')

    def __init__(self, c=0, t=None):
        self.c = Fraction(c)
        self.t = t if t is not None else {}

    def is_const(self):
        return not self.t

    def __repr__(self):
        return 'Aff(%s, %s)' % (self.c, self.t)


def a_add(x, y, sign=1):
    t = dict(x.t)
    for k, v in y.t.items():
        nv = t.get(k, 0) + sign * v
        if nv == 0:
            t.pop(k, None)
        else:
            t[k] = nv
    return Aff(x.c + sign * y.c, t)


def a_scale(x, f):
    if f == 0:
        return Aff(0)
    return Aff(x.c * f, dict((k, v * f) for k, v in x.t.items()))


def a_mul(x, y):
    if x.is_const():
        return a_scale(y, x.c)
    if y.is_const():
        return a_scale(x, y.c)
    raise NonAffine('product of two unknown expressions')


def a_div(x, y):
    if not y.is_const():
        raise NonAffine('division by an unknown expression')
    if y.c == 0:
        raise ZeroDivisionError('exact division by zero')
    return a_scale(x, 1 / y.c)


def literal_fraction(node, src):
    """Exact value of a numeric literal from its decimal spelling."""
    v = node.value
    if isinstance(v, bool) or not isinstance(v, (int, float)):
        raise Unsupported('literal %r' % (v,))
    if isinstance(v, int):
        return Fraction(v)
    seg = ast.get_source_segment(src, node)
    if seg is not None:
        try:
            return Fraction(seg.replace('_', ''))
        except (ValueError, ZeroDivisionError):
            pass
    return Fraction(v)


_AST_CACHE = {}


def parse_expr(src):
    src = src.strip()
    node = _AST_CACHE.get(src)
    if node is None:
        try:
            node = ast.parse(src, mode='eval')
        except SyntaxError as e:
            raise Unsupported('syntax: %s' % (src,))
        if len(_AST_CACHE) > 200000:
            _AST_CACHE.clear()
        _AST_CACHE[src] = node
    return node, src


def eval_aff(src, env):
    """Evaluate expression text to an Aff.  env: name -> Aff | Fraction; missing names raise KeyError."""
    node, src = parse_expr(src)
    return _ev(node.body, src, env)


def _ev(n, src, env):
    if isinstance(n, ast.BinOp):
        a = _ev(n.left, src, env)
        b = _ev(n.right, src, env)
        if isinstance(n.op, ast.Add):
            return a_add(a, b)
        if isinstance(n.op, ast.Sub):
            return a_add(a, b, -1)
        if isinstance(n.op, ast.Mult):
            return a_mul(a, b)
        if isinstance(n.op, ast.Div):
            return a_div(a, b)
        if isinstance(n.op, ast.Pow):
            if a.is_const() and b.is_const() and b.c.denominator == 1 and abs(b.c) <= 8:
                return Aff(a.c ** int(b.c))
            raise NonAffine('power')
        raise Unsupported('operator %s' % type(n.op).__name__)
    if isinstance(n, ast.UnaryOp):
        a = _ev(n.operand, src, env)
        if isinstance(n.op, ast.USub):
            return a_scale(a, -1)
        if isinstance(n.op, ast.UAdd):
            return a
        raise Unsupported('unary')
    if isinstance(n, ast.Constant):
        return Aff(literal_fraction(n, src))
    if isinstance(n, ast.Name):
        v = env[n.id]
        if isinstance(v, Aff):
            return v
        return Aff(v)
    if isinstance(n, ast.Compare) and len(n.ops) == 1:
        a = _ev(n.left, src, env)
        b = _ev(n.comparators[0], src, env)
        if not (a.is_const() and b.is_const()):
            raise NonAffine('comparison of unknowns')
        import operator as _op
        fn = {ast.Lt: _op.lt, ast.LtE: _op.le, ast.Gt: _op.gt, ast.GtE: _op.ge, ast.Eq: _op.eq, ast.NotEq: _op.ne}.get(type(n.ops[0]))
        if fn is None:
            raise Unsupported('comparison')
        return Aff(Fraction(1 if fn(a.c, b.c) else 0))
    if isinstance(n, ast.Call) and isinstance(n.func, ast.Name) and n.func.id in ('min', 'max', 'abs', 'float'):
        args = [_ev(x, src, env) for x in n.args]
        if not all(x.is_const() for x in args):
            raise NonAffine('function of unknowns')
        vals = [x.c for x in args]
        f = {'min': min, 'max': max, 'abs': lambda *v: abs(v[0]), 'float': lambda *v: v[0]}[n.func.id]
        return Aff(f(*vals))
    raise Unsupported('node %s' % type(n).__name__)


def eval_const_list(src):
    """Evaluate an exogenous specification ([a]*n + [b,...], tuple, scalar float) to a list of Fractions
    or a single Fraction (scalar)."""
    node, src = parse_expr(src)
    return _evl(node.body, src)


def _evl(n, src):
    if isinstance(n, (ast.List, ast.Tuple)):
        return [_scalar(_evl(x, src)) for x in n.elts]
    if isinstance(n, ast.BinOp):
        a = _evl(n.left, src)
        b = _evl(n.right, src)
        la, lb = isinstance(a, list), isinstance(b, list)
        if isinstance(n.op, ast.Add) and la and lb:
            return a + b
        if isinstance(n.op, ast.Mult) and la != lb:
            lst, k = (a, b) if la else (b, a)
            if k.denominator != 1:
                raise Unsupported('list * non-integer')
            return lst * int(k)
        if la or lb:
            raise Unsupported('list arithmetic')
        return _ev(n, src, {}).c
    if isinstance(n, (ast.Constant, ast.UnaryOp)):
        return _ev(n, src, {}).c
    raise Unsupported('exogenous node %s' % type(n).__name__)


def _scalar(v):
    if isinstance(v, list):
        raise Unsupported('nested list')
    return v


# ---------------------------------------------------------------------------------------------
# Exact solution of one period

def solve_linear(rows):
    """rows: list of (coeffs dict var->Fraction, rhs Fraction) meaning sum coeffs*var = rhs.
    Returns dict var -> Fraction.  Raises Indeterminate / Inconsistent."""
    rows = [(dict(c), r) for c, r in rows]
    # index: var -> set of row ids containing it
    where = {}
    for i, (c, r) in enumerate(rows):
        for v in c:
            where.setdefault(v, set()).add(i)
    allvars = set(where)
    pivots = {}   # var -> row id
    done = set()
    n = len(rows)
    for _ in range(n):
        # choose the unprocessed row with fewest terms
        best = None
        for i in range(n):
            if i in done:
                continue
            c = rows[i][0]
            if not c:
                if rows[i][1] != 0:
                    raise Inconsistent('0 = %s' % rows[i][1])
                done.add(i)
                continue
            if best is None or len(c) < len(rows[best][0]):
                best = i
                if len(c) == 1:
                    break
        if best is None:
            break
        c, r = rows[best]
        # pivot variable: the one occurring in fewest other rows
        pv = min(c, key=lambda v: (len(where[v]), v))
        f = c[pv]
        c = dict((v, x / f) for v, x in c.items())
        r = r / f
        rows[best] = (c, r)
        pivots[pv] = best
        done.add(best)
        for j in list(where[pv]):
            if j == best:
                continue
            cj, rj = rows[j]
            g = cj.pop(pv)
            where[pv].discard(j)
            for v, x in c.items():
                if v == pv:
                    continue
                nv = cj.get(v, 0) - g * x
                if nv == 0:
                    if v in cj:
                        del cj[v]
                        where[v].discard(j)
                else:
                    if v not in cj:
                        where[v].add(j)
                    cj[v] = nv
            rows[j] = (cj, rj - g * r)
    if set(pivots) != allvars:
        raise Indeterminate('free variables: %s' % sorted(allvars - set(pivots))[:5])
    # Gauss-Jordan: every pivot variable has been eliminated from all other rows (processed ones
    # included), so each pivot row now reads  pivot = rhs.
    vals = {}
    for v, i in pivots.items():
        c, r = rows[i]
        if len(c) != 1:
            raise Indeterminate('row not reduced')
        vals[v] = r
    return vals


class ExactModel(object):
    """Exact period-by-period solution of a block whose equations are affine after constant propagation."""

    def __init__(self, text, extra_exo=None):
        self.block = read_block(text)
        b = self.block
        self.endo = list(b.endo)
        self.endo_names = [x[0] for x in self.endo]
        self.lagged = list(b.lagged)
        self.exo = {}
        for lhs, rhs in b.exo:
            self.exo[lhs] = eval_const_list(rhs)
        if extra_exo:
            self.exo.update(extra_exo)
        if not any(n == 't' for n in self.endo_names) and 't' not in self.exo and 't' not in [l for l, s in self.lagged]:
            self.endo.append(('t', 'k'))
            self.endo_names.append('t')
        dup = set()
        seen = set()
        for n in self.endo_names + [l for l, s in self.lagged] + list(self.exo):
            if n in seen:
                dup.add(n)
            seen.add(n)
        self.duplicates = dup

    def exo_at(self, name, k):
        v = self.exo[name]
        if isinstance(v, list):
            return v[k]
        return v

    def solve_period(self, k, prev):
        """prev: dict var -> Fraction for period k-1 (all variables).  Returns dict for period k."""
        known = {'k': Fraction(k)}
        for name in self.exo:
            known[name] = self.exo_at(name, k)
        for lhs, srcv in self.lagged:
            known[lhs] = prev[srcv]
        unknown = dict((n, rhs) for n, rhs in self.endo)
        # constant propagation
        changed = True
        while changed:
            changed = False
            for n in list(unknown):
                try:
                    v = eval_aff(unknown[n], known)
                except KeyError:
                    continue
                if v.is_const():
                    known[n] = v.c
                    del unknown[n]
                    changed = True
        if unknown:
            env = dict(known)
            for n in unknown:
                env[n] = Aff(0, {n: Fraction(1)})
            rows = []
            for n, rhs in unknown.items():
                try:
                    v = eval_aff(rhs, env)
                except KeyError as e:
                    raise Unsupported('undefined name %s in %s = %s' % (e, n, rhs))
                # n = v.c + sum v.t  ->  n - sum v.t = v.c
                c = dict((u, -x) for u, x in v.t.items())
                c[n] = c.get(n, 0) + 1
                if c[n] == 0:
                    del c[n]
                rows.append((c, v.c))
            sol = solve_linear(rows)
            for n in unknown:
                if n not in sol:
                    raise Indeterminate('variable %s not determined' % n)
            known.update(sol)
        out = {}
        for n in self.endo_names:
            out[n] = known[n]
        for lhs, s in self.lagged:
            out[lhs] = known[lhs]
        for n in self.exo:
            out[n] = known[n]
        out['k'] = Fraction(k)
        return out

    def solve(self, k0, horizon):
        """k0: dict var -> number at k=0 (missing -> 0).  Returns list of dicts for k = 0..horizon."""
        first = {}
        for n in self.endo_names + [l for l, s in self.lagged]:
            first[n] = Fraction(k0.get(n, 0))
        for n in self.exo:
            first[n] = self.exo_at(n, 0)
        first['k'] = Fraction(0)
        out = [first]
        for k in range(1, horizon + 1):
            out.append(self.solve_period(k, out[-1]))
        return out


def eval_at(expr, valuation):
    """Exact value of an expression at a valuation name -> Fraction (all names known)."""
    v = eval_aff(expr, valuation)
    if not v.is_const():
        raise Unsupported('free names in %s' % expr)
    return v.c


def top_level_terms(src):
    """Split an expression into its top-level signed terms: [(sign, ast node)], using + and - only."""
    node, src = parse_expr(src)
    out = []

    def walk(n, sign):
        if isinstance(n, ast.BinOp) and isinstance(n.op, (ast.Add, ast.Sub)):
            walk(n.left, sign)
            walk(n.right, sign if isinstance(n.op, ast.Add) else -sign)
        elif isinstance(n, ast.UnaryOp) and isinstance(n.op, (ast.USub, ast.UAdd)):
            walk(n.operand, -sign if isinstance(n.op, ast.USub) else sign)
        else:
            out.append((sign, n))
    walk(node.body, 1)
    return out, src


def term_values(src, valuation):
    """[(set of names in the term, exact signed value of the term)] for every top-level term."""
    terms, src = top_level_terms(src)
    out = []
    for sign, n in terms:
        names = set(x.id for x in ast.walk(n) if isinstance(x, ast.Name))
        v = _ev(n, src, valuation)
        if not v.is_const():
            raise Unsupported('free names')
        out.append((names, sign * v.c))
    return out
