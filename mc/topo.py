"""
topo.py - topology grammar: spec (plain JSON-able dict) -> real Model built through the public constructors.

A spec is
  {'countries': [country, ...], 'ext': None|'first'|'last', 'links': [link, ...], 'xr': {currency: path-id}, 'horizon': 3}
country = {'code','cur','region':bool,'gov':None|'CONS'|'TRECB'|'GOLD','hh':None|'HH'|'HHX','cap':bool,
           'bus':None|'FM'|'MO','margin':0.0|0.1,'tax':None|rate,'mon':bool,'dep':None|'const'|'rate',
           'a1','a2','G':path-id,'r':path-id,'ic':bool}
link    = ['gift', src_country, dst_country, inc_src, inc_dst] | ['import', supplier_country, market_country(, 'foreign-residual' | 'zero-quota')]

build(spec, order=None, names=None) declares the sectors of each country in the given order (default: canonical),
then runs the fixed tail of post-declaration calls.
"""
import itertools
import json

from mc import core

core.setup_repo_path()
from sfc_models.models import Model, Country, Region  # noqa
from sfc_models.sector import Sector, Market  # noqa
from sfc_models.sector_definitions import (Household, HouseholdWithExpectations, Capitalists, GoldStandardCentralBank,  # noqa
                                           ConsolidatedGovernment, Treasury, CentralBank, FixedMarginBusiness,
                                           FixedMarginBusinessMultiOutput, TaxFlow, MoneyMarket, DepositMarket,
                                           GoldStandardGovernment)
from sfc_models.external import ExternalSector  # noqa
from sfc_models.equation_solver import EquationSolver  # noqa

PATHS = {
    'G20': '[20.,] * 12',
    'Gstep': '[0., 20., 20., 25., 25., 30.] + [30.,] * 6',
    'G7': '[7., 11., 13., 17., 19., 23.] + [23.,] * 6',
    'r25': '[.025,] * 12',
    'rstep': '[.025, .025, .035, .035, .04] + [.04,] * 7',
    'x2': '[2.,] * 12',
    'x4': '[4.,] * 12',
    'xvar': '[2., 2., 3., 5., 5.] + [5.,] * 7',
}


def base_country(code, cur=None, region=False):
    return {'code': code, 'cur': cur or code, 'region': region, 'gov': None if region else 'CONS', 'hh': 'HH',
            'cap': False, 'bus': 'FM', 'margin': 0.0, 'tax': None if region else 0.2, 'mon': False, 'dep': None,
            'a1': 0.6, 'a2': 0.4, 'G': 'G20', 'r': 'r25', 'ic': False, 'hhtax': None,
            'moncode': 'MON', 'dep2': False}


def canon(spec):
    return json.dumps(spec, sort_keys=True)


# ---------------------------------------------------------------------------------------------
# declarations

def declarations(c):
    """Ordered list of (decl-id, [ids that must come first]) for one country spec."""
    out = []
    if c['gov'] in ('CONS', 'GOLD'):
        out.append(('GOV', []))
    elif c['gov'] in ('TRECB', 'GOLDCB'):
        out.append(('TRE', []))
        out.append(('CB', ['TRE']))
    if c['hh']:
        out.append(('HH', []))
    if c['cap']:
        out.append(('CAP', []))
    if c['hh'] and c['bus']:
        out.append(('LAB', []))
        out.append(('GOOD', []))
    if c['bus']:
        out.append(('BUS', ['GOOD'] if c['bus'] == 'MO' else []))
    if c['tax'] is not None:
        out.append(('TF', []))
    if c['mon'] or c['gov'] in ('TRECB', 'GOLDCB'):
        out.append(('MON', []))
    if c['dep'] or c['gov'] in ('TRECB', 'GOLDCB'):
        out.append(('DEP', []))
    if c.get('dep2'):
        out.append(('BOND', []))
    return out


def valid_orders(decls):
    """All dependency-respecting permutations of the declaration ids."""
    ids = [d[0] for d in decls]
    deps = dict(decls)
    for perm in itertools.permutations(ids):
        pos = dict((x, i) for i, x in enumerate(perm))
        if all(pos[a] < pos[d] for d in ids for a in deps[d]):
            yield list(perm)


class Built(object):
    """What the builder knows about the model it declared (computed from the spec, not from the library)."""

    def __init__(self, spec):
        self.spec = spec
        self.model = None
        self.countries = {}     # spec code -> Country object
        self.sectors = {}       # (spec country code, decl id) -> sector object
        self.error = None


def N(names, code):
    return names.get(code, code) if names else code


def NN(c, names, code):
    """Name of a code inside country spec c: the country's own 'names' map first, then the global map."""
    own = c.get('names') or {}
    if code in own:
        return own[code]
    return N(names, code)


def gov_code(c):
    return 'TRE' if c['gov'] in ('TRECB', 'GOLDCB') else 'GOV'


def build(spec, order=None, names=None, maxtime=None):
    b = Built(spec)
    m = Model()
    b.model = m
    specs_by_code = dict((c['code'], c) for c in spec['countries'])
    ext_imported = set()   # (supplier country, market country) pairs for MO market lists
    for l in spec.get('links', []):
        if l[0] == 'import':
            ext_imported.add((l[1], l[2]))
    if spec.get('ext') == 'first':
        ExternalSector(m)
    # countries first (all exist before sectors so that multi-output firms can name foreign markets)
    creation = list(spec['countries'])
    if order and order.get('__countries__'):
        # the Country objects themselves are created in another order (C08); the default-currency Region keeps its predecessor
        creation = [specs_by_code[x] for x in order['__countries__']]
    for c in creation:
        cc = NN(c, names, c['code'])
        if c['region'] and c.get('region_default_currency'):
            # documented default: a Region takes the currency of the country declared just before it
            b.countries[c['code']] = Region(m, cc)
        elif c['region']:
            b.countries[c['code']] = Region(m, cc, currency=c['cur'])
        else:
            b.countries[c['code']] = Country(m, cc, currency=c['cur'])
    if spec.get('ext') == 'mid':
        ExternalSector(m)
    # pass 1: every declaration except multi-output firms that supply a foreign market declared later
    deferred = []
    if order and order.get('__global__'):
        # declarations of several countries interleaved: [[country code, declaration id], ...]
        for ccode, did in order['__global__']:
            _declare(b, specs_by_code[ccode], b.countries[ccode], did, names, specs_by_code, ext_imported, deferred)
    else:
        for c in spec['countries']:
            co = b.countries[c['code']]
            decls = declarations(c)
            ids = [d[0] for d in decls]
            if order and c['code'] in order:
                ids = list(order[c['code']])
            for did in ids:
                _declare(b, c, co, did, names, specs_by_code, ext_imported, deferred)
    for fn in deferred:
        fn()
    if spec.get('ext') == 'last':
        ExternalSector(m)
    _tail(b, names)
    if spec.get('manual_gold'):
        # gold bought through the public InternationalGold.SetGoldPurchases() at build time by an ad-hoc sector
        cc = spec['manual_gold']
        gb = Sector(b.countries[cc], 'GB', has_F=True)
        gb.AddVariable('GOLDBUY', 'gold purchases (local currency)', '3.0')
        b.sectors[(cc, 'GB')] = gb
        m.ExternalSector['GOLD'].SetGoldPurchases(gb, 'GOLDBUY', 5.)
    if spec.get('late_region'):
        # one more (empty) region joins an existing currency zone after everything else has been declared
        code, cur = spec['late_region']
        b.countries[code] = Region(m, code, currency=cur)
    m.MaxTime = maxtime if maxtime is not None else spec.get('horizon', 3)
    m.EquationSolver.MaxIterations = 5000
    return b


def probe_regression(spec, r, order=None):
    """A spec built with the read-only mid-build look-ups fails although the same spec without them runs: message, else None."""
    if not spec.get('probe'):
        return None
    failed = r.stage == 'build' or (r.error is not None and type(r.error).__name__ != 'ConvergenceError')
    if not failed:
        return None
    plain = json.loads(json.dumps(spec))
    plain.pop('probe')
    r2 = run(plain, order=order)
    if r2.stage == 'build' or (r2.error is not None and type(r2.error).__name__ != 'ConvergenceError'):
        return None
    return 'the model fails (%s: %s) once read-only look-ups are made while it is being built; without them it runs' % (
        type(r.error).__name__, str(r.error)[:120])


def _probe(b):
    """Read-only public look-ups a user may make while the model is still being built; they must not change what is generated."""
    m = b.model
    m.GetSectors()
    for co in b.countries.values():
        secs = list(co.GetSectors())
        zone = co.CurrencyZone
        zsecs = list(zone.GetSectors())
        for s_ in secs[:1]:
            co.LookupSector(s_.Code)
            try:
                zone.LookupSector(s_.Code)
            except Exception:
                pass            # ambiguous in a zone of several regions: refusing is fine, it is a read-only question
            s_.GetVariables()
        for s_ in zsecs[-1:]:
            s_.IsSharedCurrencyZone(zsecs[0])
        co.Code in m
    if m.ExternalSector is not None:
        # the public cross-rate look-up (it declares the cross-rate variable on first use)
        curs = []
        for co in b.countries.values():
            if co.Currency not in curs:
                curs.append(co.Currency)
        for x in curs:
            for y in curs:
                if x != y:
                    m.ExternalSector.GetCrossRate(x, y)


def _declare(b, c, co, did, names, specs_by_code, imported, deferred):
    if b.spec.get('probe'):
        _probe(b)
    code = c['code']
    S = b.sectors
    if did == 'GOV':
        if c['gov'] == 'GOLD':
            S[(code, 'GOV')] = GoldStandardGovernment(co, NN(c, names, 'GOV'), initial_gold_stock=10.)
        else:
            S[(code, 'GOV')] = ConsolidatedGovernment(co, NN(c, names, 'GOV'))
    elif did == 'TRE':
        S[(code, 'TRE')] = Treasury(co, NN(c, names, 'TRE'))
    elif did == 'CB':
        if c['gov'] == 'GOLDCB':
            S[(code, 'CB')] = GoldStandardCentralBank(co, NN(c, names, 'CB'), treasury=S[(code, 'TRE')], initial_gold_stock=10.)
        else:
            S[(code, 'CB')] = CentralBank(co, NN(c, names, 'CB'), treasury=S[(code, 'TRE')])
    elif did == 'HH':
        cls = Household if c['hh'] == 'HH' else HouseholdWithExpectations
        S[(code, 'HH')] = cls(co, NN(c, names, 'HH'), alpha_income=c['a1'], alpha_fin=c['a2'],
                              consumption_good_name=NN(c, names, 'GOOD'), labour_name=NN(c, names, 'LAB'))
        if c.get('hhtax') is not None:
            S[(code, 'HH')].AddVariable('TaxRate', 'Sector-level tax rate', '%0.4f' % c['hhtax'])
    elif did == 'CAP':
        S[(code, 'CAP')] = Capitalists(co, NN(c, names, 'CAP'), alpha_income=c['a1'], alpha_fin=c['a2'],
                                       consumption_good_name=NN(c, names, 'GOOD'))
        if c.get('capexcl'):
            # the user declares dividends received not to be (taxable) income
            b.model.AddCashFlowIncomeExclusion(S[(code, 'CAP')], 'DIV')
    elif did == 'LAB':
        S[(code, 'LAB')] = Market(co, NN(c, names, 'LAB'))
    elif did == 'GOOD':
        S[(code, 'GOOD')] = Market(co, NN(c, names, 'GOOD'))
    elif did == 'BUS':
        if c['bus'] == 'FM':
            S[(code, 'BUS')] = FixedMarginBusiness(co, NN(c, names, 'BUS'), profit_margin=c['margin'],
                                                   labour_input_name=NN(c, names, 'LAB'), output_name=NN(c, names, 'GOOD'))
        else:
            foreign = [mk for (sup, mk) in sorted(imported) if sup == code]

            def make():
                mlist = [S[(code, 'GOOD')]] + [S[(mk, 'GOOD')] for mk in foreign]
                S[(code, 'BUS')] = FixedMarginBusinessMultiOutput(
                    co, NN(c, names, 'BUS'), profit_margin=c['margin'], labour_input_name=NN(c, names, 'LAB'),
                    market_list=mlist)
            if foreign:
                deferred.append(make)
            else:
                make()
    elif did == 'TF':
        S[(code, 'TF')] = TaxFlow(co, NN(c, names, 'TF'), taxrate=c['tax'], taxes_paid_to=_zone_gov_name(b, c, names))
    elif did == 'MON':
        issuer = 'CB' if c['gov'] in ('TRECB', 'GOLDCB') else 'GOV'
        S[(code, 'MON')] = MoneyMarket(co, code=c.get('moncode', 'MON'), issuer_short_code=NN(c, names, issuer))
    elif did == 'DEP':
        issuer = 'TRE' if c['gov'] in ('TRECB', 'GOLDCB') else 'GOV'
        S[(code, 'DEP')] = DepositMarket(co, issuer_short_code=NN(c, names, issuer))
    elif did == 'BOND':
        issuer = 'TRE' if c['gov'] in ('TRECB', 'GOLDCB') else 'GOV'
        S[(code, 'BOND')] = DepositMarket(co, code='BOND', issuer_short_code=NN(c, names, issuer))
    else:
        raise ValueError(did)


def _zone_gov_name(b, c, names):
    for o in b.spec['countries']:
        if o['cur'] == c['cur'] and o['gov']:
            return NN(o, names, gov_code(o))
    return 'GOV'


def zone_gov(spec, cur):
    for o in spec['countries']:
        if o['cur'] == cur and o['gov']:
            return o
    return None


def _tail(b, names):
    spec = b.spec
    S = b.sectors
    m = b.model
    if spec.get('probe'):
        _probe(b)          # once more when everything (incl. a late external sector) is declared, before the flows are registered
    for c in spec['countries']:
        code = c['code']
        gspec = zone_gov(spec, c['cur'])
        # government demand for this country's goods
        if ('GOOD' in [d[0] for d in declarations(c)]) and gspec is not None:
            gov = S[(gspec['code'], gov_code(gspec))]
            if gspec['code'] == code:
                var = 'DEM_' + NN(c, names, 'GOOD')
            else:
                var = 'DEM_' + NN(c, names, code) + '_' + NN(c, names, 'GOOD')
            if var not in gov.EquationBlock:
                gov.AddVariable(var, 'Government demand', '0.0')
            if c.get('string_api'):
                # the documented string form: Model.AddExogenous(<full sector code>, variable, path)
                n_c = len(spec['countries']) + (1 if spec.get('ext') else 0) + (1 if spec.get('late_region') else 0)
                gfull = gov.Code if n_c == 1 else gov.Parent.Code + '_' + gov.Code
                m.AddExogenous(gfull, var, PATHS[c['G']])
            else:
                gov.SetExogenous(var, PATHS[c['G']])
        # residual supplier / imports
        if c['dep'] or c['gov'] in ('TRECB', 'GOLDCB'):
            dep = S[(code, 'DEP')]
            dep.SetExogenous('r', PATHS[c['r']])
            kind = c['dep'] or 'const'
            moncode = c.get('moncode', 'MON')
            if c.get('dep2'):
                S[(code, 'BOND')].SetExogenous('r', PATHS['rstep'])
            for hid in ('HH', 'CAP'):
                if (code, hid) not in S:
                    continue
                hh = S[(code, hid)]
                if kind == 'pc' and hid == 'HH':
                    hh.AddVariable('L0', 'lambda0', '0.635')
                    hh.AddVariable('L1', 'lambda1', '5.')
                    hh.AddVariable('L2', 'lambda2', '.01')
                    w = 'L0 + L1 * {0} - L2 * (AfterTax/F)'.format(dep.GetVariableName('r'))
                elif kind == 'rate':
                    hh.AddVariable('L0', 'lambda0', '0.635')
                    hh.AddVariable('L1', 'lambda1', '5.')
                    w = 'L0 + L1 * {0}'.format(dep.GetVariableName('r'))
                else:
                    w = '0.25'      # (a sector whose F stays 0 cannot use AfterTax/F: Capitalists get a constant weight)
                weights = [('DEP', w)]
                if c.get('dep2'):
                    weights.append(('BOND', '0.2'))
                hh.GenerateAssetWeighting(weights, moncode)
        if c['ic'] and (code, 'HH') in S and gspec is not None:
            S[(code, 'HH')].AddInitialCondition('F', 80.)
            gov = S[(gspec['code'], gov_code(gspec))]
            m.AddInitialCondition(gov.ID, 'F', -80.)
            if gspec['code'] != code:
                pass
    # initial stocks when several countries of one zone ask for them: the government takes the sum
    stocks = {}
    for c in spec['countries']:
        if c['ic'] and (c['code'], 'HH') in S:
            stocks[c['cur']] = stocks.get(c['cur'], 0) + 1
    for cur, n in stocks.items():
        if n > 1:
            gspec = zone_gov(spec, cur)
            gov = S[(gspec['code'], gov_code(gspec))]
            m.InitialConditions = [x for x in m.InitialConditions if not (x[0] == gov.ID and x[1] == 'F')]
            m.AddInitialCondition(gov.ID, 'F', -80. * n)
    for l in spec.get('links', []):
        if l[0] == 'gift':
            src = S[(l[1], 'HH')]
            dst = S[(l[2], 'HH')]
            if 'GIFT' not in src.EquationBlock:
                src.AddVariable('GIFT', 'Gift sent abroad', '0.1 * AfterTax')
            if len(l) > 5 and l[5] == 'defaults':
                m.RegisterCashFlow(src, dst, 'GIFT')          # documented defaults: income on both sides
            else:
                m.RegisterCashFlow(src, dst, 'GIFT', is_income_source=l[3], is_income_dest=l[4])
        elif l[0] == 'import':
            supplier = S[(l[1], 'BUS')]
            market = S[(l[2], 'GOOD')]
            home = S[(l[2], 'BUS')]
            hh = S[(l[2], 'HH')]
            market.AddVariable('MU', 'Propensity to import', '0.2')
            if len(l) > 3 and l[3] == 'foreign-residual':
                market.AddSupplier(home, 'MU*{0}'.format(hh.GetVariableName('INC')))
                market.AddSupplier(supplier)
            elif len(l) > 3 and l[3] == 'zero-quota':
                # the residual supplier is registered first; the foreign producer gets a quota of zero, given as a number
                market.AddSupplier(home)
                market.AddSupplier(supplier, 0.0)
            else:
                market.AddSupplier(supplier, 'MU*{0}'.format(hh.GetVariableName('INC')))
                market.AddSupplier(home)
        else:
            raise ValueError(l)
    if spec.get('ext') and (spec.get('manual_gold') or any(c['gov'] in ('GOLD', 'GOLDCB') for c in spec['countries'])):
        # a gold price that is not 1 and moves (the default price of 1.0 hides any slip between ounces and numeraire)
        m.ExternalSector['GOLD'].SetExogenous('PRICE', '[35., 35., 36., 38.] + [38.,] * 8')
    if spec.get('ext'):
        xr = m.ExternalSector['XR']
        for cur, pid in sorted(spec.get('xr', {}).items()):
            xr.SetExogenous(cur, PATHS[pid])


# ---------------------------------------------------------------------------------------------
# running

class Run(object):
    def __init__(self):
        self.built = None
        self.text = ''
        self.error = None        # exception raised by main() (or by the constructors)
        self.stage = None        # 'build' | 'main'
        self.series = None       # library float series when main() succeeded (or partially)


def run(spec, order=None, names=None, maxtime=None):
    r = Run()
    try:
        r.built = build(spec, order=order, names=names, maxtime=maxtime)
    except Exception as e:
        r.error = e
        r.stage = 'build'
        return r
    m = r.built.model
    try:
        m.main()
    except Exception as e:
        r.error = e
        r.stage = 'main'
    r.text = m.FinalEquations
    r.series = m.EquationSolver.TimeSeries
    return r


# ---------------------------------------------------------------------------------------------
# deviation-bounded enumeration of specs

def country_deviations(c, allow_gold):
    """List of (label, dict of field updates) for one country spec."""
    out = []
    if c['gov']:
        out.append(('gov=TRECB', {'gov': 'TRECB'}))
        if allow_gold:
            out.append(('gov=GOLD', {'gov': 'GOLD'}))
            out.append(('gov=GOLDCB', {'gov': 'GOLDCB'}))
        out.append(('tax=none', {'tax': None}))
        out.append(('tax=.25', {'tax': 0.25}))
        out.append(('mon', {'mon': True}))
        out.append(('dep=const', {'mon': True, 'dep': 'const'}))
        out.append(('dep=rate', {'mon': True, 'dep': 'rate'}))
        out.append(('dep=pc', {'mon': True, 'dep': 'pc'}))
        out.append(('r=step', {'r': 'rstep'}))
        out.append(('dep2', {'dep2': True}))
        out.append(('moncode', {'moncode': 'CASH'}))
    out.append(('hh=HHX', {'hh': 'HHX'}))
    out.append(('hhtax', {'hhtax': 0.1}))
    out.append(('cap', {'cap': True}))
    out.append(('cap+div-not-income', {'cap': True, 'capexcl': True}))
    out.append(('bus=MO', {'bus': 'MO'}))
    out.append(('margin=.1', {'margin': 0.1}))
    out.append(('margin=.2125', {'margin': 0.2125}))      # (a margin whose 3-decimal renderings do not add up to one)
    out.append(('alpha', {'a1': 0.7, 'a2': 0.3}))
    out.append(('G=step', {'G': 'Gstep'}))
    out.append(('ic', {'ic': True}))
    return out


def apply_country(spec, idx, upd):
    s = json.loads(json.dumps(spec))
    c = s['countries'][idx]
    for k, v in upd.items():
        if k in ('mon',) and c.get(k) == v and len(upd) == 1:
            return None
        c[k] = v
    return s


def well_formed(spec):
    for c in spec['countries']:
        if c['gov'] in ('GOLD', 'GOLDCB') and not spec.get('ext'):
            return False
        if c['gov'] == 'GOLD' and (c['mon'] or c['dep']):
            return False
        if c['r'] != 'r25' and not (c['dep'] or c['gov'] in ('TRECB', 'GOLDCB')):
            return False
        if c['region'] and (c['mon'] or c['dep'] or c['tax'] is not None):
            return False
        if c['ic'] and zone_gov(spec, c['cur']) is None:
            return False
        if c.get('dep2') and not c['dep']:
            return False
        if c.get('moncode', 'MON') != 'MON' and not (c['mon'] and c['gov'] == 'CONS'):
            return False
        if c['cap'] and c['bus'] == 'MO':
            return False    # library: NotImplementedError('Not tested yet')
        if c.get('hhtax') is not None and zone_gov(spec, c['cur']) is None:
            return False
        if c['ic'] and zone_gov(spec, c['cur'])['gov'] == 'GOLD':
            return False
    for l in spec.get('links', []):
        by = dict((c['code'], c) for c in spec['countries'])
        a, bb = by[l[1]], by[l[2]]
        if a['cur'] != bb['cur'] and not spec.get('ext'):
            return False
        if l[0] == 'import' and not (a['bus'] and bb['bus'] and bb['hh']):
            return False
        if l[0] == 'gift' and not (a['hh'] and bb['hh']):
            return False
    if spec.get('xr') and not spec.get('ext'):
        return False
    if spec.get('manual_gold') and spec.get('ext') not in ('first', 'mid'):
        return False
    return True


def enumerate_specs(base, devs, bound):
    """All well-formed specs reachable from base by at most `bound` deviations.
    devs: list of (label, fn(spec) -> spec | None).  Returns list of (labels, spec), deduplicated."""
    seen = {canon(base): ((), base)}
    frontier = [((), base)]
    for d in range(bound):
        nxt = []
        for labels, s in frontier:
            for label, fn in devs:
                if label in labels:
                    continue
                t = fn(s)
                if t is None:
                    continue
                k = canon(t)
                if k in seen:
                    continue
                seen[k] = (labels + (label,), t)
                nxt.append((labels + (label,), t))
        frontier = nxt
    return [v for v in seen.values() if well_formed(v[1])]


def family_single():
    base = {'countries': [base_country('CO')], 'ext': None, 'links': [], 'xr': {}, 'horizon': 3}
    devs = []
    for label, upd in country_deviations(base['countries'][0], False):
        devs.append((label, (lambda u: (lambda s: apply_country(s, 0, u)))(upd)))
    devs.append(('probe:mid-build', lambda s: None if s.get('probe') else _set(s, probe=True)))
    return 'single', base, devs


def family_federated():
    base = {'countries': [base_country('XA', 'CUR'), base_country('RB', 'CUR', region=True)],
            'ext': None, 'links': [], 'xr': {}, 'horizon': 3}
    devs = []
    for i, tag in ((0, 'X'), (1, 'R')):
        for label, upd in country_deviations(base['countries'][i], False):
            devs.append((tag + ':' + label, (lambda u, j: (lambda s: apply_country(s, j, u)))(upd, i)))
    devs += _link_devs([('XA', 'RB'), ('RB', 'XA')])

    def defcur(s_):
        if s_['countries'][1].get('region_default_currency'):
            return None
        t = json.loads(json.dumps(s_))
        t['countries'][1]['region_default_currency'] = True      # Region(model, code): the currency defaults to the federation's
        return t
    devs.append(('R:default-currency', defcur))
    devs.append(('probe:mid-build', lambda s: None if s.get('probe') else _set(s, probe=True)))
    return 'federated', base, devs


def _set(spec, **kw):
    s = json.loads(json.dumps(spec))
    for k, v in kw.items():
        s[k] = v
    return s


def _add_link(spec, link):
    s = json.loads(json.dumps(spec))
    if link in s['links']:
        return None
    if link[0] == 'import' and any(l[0] == 'import' and l[2] == link[2] for l in s['links']):
        return None
    s['links'].append(link)
    return s


def _link_devs(pairs):
    devs = []
    for a, b in pairs:
        devs.append(('gift:%s>%s' % (a, b), (lambda l: (lambda s: _add_link(s, l)))(['gift', a, b, True, True])))
        devs.append(('giftni:%s>%s' % (a, b), (lambda l: (lambda s: _add_link(s, l)))(['gift', a, b, False, True])))
        devs.append(('giftdef:%s>%s' % (a, b), (lambda l: (lambda s: _add_link(s, l)))(['gift', a, b, True, True, 'defaults'])))
        devs.append(('import:%s>%s' % (a, b), (lambda l: (lambda s: _add_link(s, l)))(['import', a, b])))
        # the home producer gets the fixed share and the FOREIGN producer is the market's residual supplier
        devs.append(('import-residual:%s>%s' % (a, b), (lambda l: (lambda s: _add_link(s, l)))(['import', a, b, 'foreign-residual'])))
        devs.append(('import-zero-quota:%s>%s' % (a, b), (lambda l: (lambda s: _add_link(s, l)))(['import', a, b, 'zero-quota'])))
    return devs


def _xr_dev(cur, pid):
    def fn(s):
        t = json.loads(json.dumps(s))
        if t['xr'].get(cur) == pid:
            return None
        t['xr'][cur] = pid
        return t
    return ('xr:%s=%s' % (cur, pid), fn)


def _xr_unit(cur):
    def fn(s):
        if cur not in s['xr']:
            return None
        t = json.loads(json.dumps(s))
        del t['xr'][cur]
        return t
    return ('xr:%s=unit' % cur, fn)


def family_two_zones():
    base = {'countries': [base_country('AA'), base_country('BB')], 'ext': 'last', 'links': [],
            'xr': {'AA': 'x2', 'BB': 'x4'}, 'horizon': 3}
    devs = []
    for i, tag in ((0, 'A'), (1, 'B')):
        for label, upd in country_deviations(base['countries'][i], True):
            devs.append((tag + ':' + label, (lambda u, j: (lambda s: apply_country(s, j, u)))(upd, i)))
    devs += _link_devs([('AA', 'BB'), ('BB', 'AA')])
    devs += [_xr_dev('AA', 'xvar'), _xr_dev('BB', 'xvar'), _xr_unit('AA'), _xr_unit('BB')]
    devs.append(('ext=first', lambda s: _set(s, ext='first') if s['ext'] != 'first' else None))
    devs.append(('ext=mid', lambda s: _set(s, ext='mid') if s['ext'] != 'mid' else None))
    devs.append(('manualgold:AA+late-region', lambda s: _set(s, ext='first', manual_gold='AA', late_region=['AR', 'AA'])
                 if not s.get('manual_gold') else None))
    devs.append(('manualgold:BB', lambda s: _set(s, ext='mid', manual_gold='BB') if not s.get('manual_gold') else None))
    devs.append(('probe:mid-build', lambda s: None if s.get('probe') else _set(s, probe=True)))
    return 'two_zones', base, devs


def family_three_zones():
    base = {'countries': [base_country('AA'), base_country('BB'), base_country('CC')], 'ext': 'last',
            'links': [['gift', 'AA', 'BB', True, True]], 'xr': {'AA': 'x2', 'BB': 'x4'}, 'horizon': 3}
    devs = []
    devs += _link_devs([('AA', 'CC'), ('CC', 'AA'), ('BB', 'CC'), ('CC', 'BB'), ('BB', 'AA')])
    devs += [_xr_dev('CC', 'xvar'), _xr_dev('AA', 'xvar')]
    for i, tag in ((0, 'A'), (2, 'C')):
        for label, upd in country_deviations(base['countries'][i], True):
            if label in ('gov=TRECB', 'gov=GOLD', 'margin=.1', 'bus=MO', 'hh=HHX', 'ic'):
                devs.append((tag + ':' + label, (lambda u, j: (lambda s: apply_country(s, j, u)))(upd, i)))
    return 'three_zones', base, devs


def family_two_zones_noext():
    base = {'countries': [base_country('AA'), base_country('BB')], 'ext': None, 'links': [], 'xr': {}, 'horizon': 3}
    devs = []
    for i, tag in ((0, 'A'), (1, 'B')):
        for label, upd in country_deviations(base['countries'][i], False):
            devs.append((tag + ':' + label, (lambda u, j: (lambda s: apply_country(s, j, u)))(upd, i)))
    return 'two_zones_noext', base, devs


FAMILIES = [family_single, family_federated, family_two_zones, family_three_zones, family_two_zones_noext]


def all_specs(bounds):
    """bounds: dict family-name -> deviation bound.  Returns list of (family, labels, spec)."""
    out = []
    seen = set()
    for fam in FAMILIES:
        name, base, devs = fam()
        if name not in bounds:
            continue
        for labels, s in enumerate_specs(base, devs, bounds[name]):
            k = canon(s)
            if k in seen:
                continue
            seen.add(k)
            out.append((name, list(labels), s))
    return out


# ---------------------------------------------------------------------------------------------
# what the oracles need to know about a built model (grouping taken from the spec; names through public API)

def zone_ledger(built):
    """{currency: {'F': [full names of F of every sector with HasF in the zone], 'NET': name|None}}"""
    out = {}
    m = built.model
    for c in built.spec['countries']:
        z = out.setdefault(c['cur'], {'F': [], 'NET': None})
        for s in built.countries[c['code']].SectorList:
            if s.HasF:
                z['F'].append(s.GetVariableName('F'))
    if m.ExternalSector is not None:
        fx = m.ExternalSector['FX']
        for cur in out:
            out[cur]['NET'] = fx.GetVariableName('NET_' + cur)
    return out


def solve_exact(run_result, horizon):
    """Exact solution of the emitted equations, started from the library's own k=0 values."""
    from mc import exact
    em = exact.ExactModel(run_result.text)
    k0 = {}
    for v, x in run_result.series.items():
        if len(x) > 0:
            k0[v] = x[0]
    return em, em.solve(k0, horizon)
