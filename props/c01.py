"""
C01 - every generated model is stock-flow consistent in each currency.

Deviation-bounded enumeration of model topologies (mc/topo.py); every spec is built with the real
constructors, Model.main() emits the equations, the independent reader + exact rational solver solves them
period by period, and for every currency zone and period the conservation sum must be exactly 0.
"""
from fractions import Fraction

from mc import core, exact, topo

ID = 'C01'
LEVEL = 'model_checking'
RULE = ('state = (topology spec, period k); all specs within the deviation bound of the base economy in the families '
        'single / federated / two zones / three zones / two zones without external sector; oracle: '
        'sum over sectors with F in a currency zone of F(k)-F(k-1), plus EXT_FX NET of that currency, == 0 as a rational '
        '(float gap oracle only for the non-affine PC-style portfolio weight); the zones are the declared currencies (the model\'s zone membership must be that partition, incl. a Region left on the default currency); non-trivial = spec in which some F changes')
ASSUMPTIONS = [
    'k=0 values are taken from the library (they are the initial state); periods 1..3 are solved exactly by mc/exact.py',
    'k=1 is checked only for specs without imposed initial stocks',
    'well-formedness as enforced by topo.well_formed (one dividend receiver per country, no Capitalists with multi-output firm, gold government needs an external sector)',
]
BOUNDS = {
    'quick': {'single': 2, 'federated': 1, 'two_zones': 2, 'three_zones': 1, 'two_zones_noext': 1, 'horizon': 3},
    'thorough': {'single': 3, 'federated': 2, 'two_zones': 3, 'three_zones': 2, 'two_zones_noext': 2, 'horizon': 3},
}


def units(tier):
    b = dict(BOUNDS[tier])
    b.pop('horizon')
    return [{'family': fam, 'labels': labels, 'spec': spec} for fam, labels, spec in topo.all_specs(b)]


def check_spec(spec, labels=()):
    """Returns (outcome label, nontrivial flag, list of violations, states, transitions)."""
    H = spec.get('horizon', 3)
    case = {'spec': spec, 'labels': list(labels)}
    nonaffine = any(c['dep'] == 'pc' for c in spec['countries'])
    r = topo.run(spec)
    msg = topo.probe_regression(spec, r)
    if msg:
        return 'probe-breaks-model', False, [core.violation('read-only-lookup-changes-outcome', msg, case)], 0, 0
    if r.stage == 'build':
        return 'build-error:%s' % type(r.error).__name__, False, [], 0, 0
    if r.error is not None and type(r.error).__name__ != 'ConvergenceError':
        return 'main-error:%s' % type(r.error).__name__, False, [], 0, 0
    ledger = topo.zone_ledger(r.built)
    # the zones of the property are the declared currencies: the model's own zone membership must be that partition
    want_zones = {}
    for c in spec['countries']:
        want_zones.setdefault(c['cur'], set()).add(r.built.countries[c['code']].Code)
    if spec.get('late_region'):
        want_zones.setdefault(spec['late_region'][1], set()).add(spec['late_region'][0])
    ext = r.built.model.ExternalSector
    got_zones = dict((z.Currency, set(x.Code for x in z.CountryList if x is not ext)) for z in r.built.model.CurrencyZoneList)
    got_zones = dict((k, v) for k, v in got_zones.items() if v)
    if got_zones != want_zones:
        return 'zones-wrong', False, [core.violation('currency-zone-membership-wrong', 'currency zones of the model %r, declared %r' % (
            sorted((k, sorted(v)) for k, v in got_zones.items()), sorted((k, sorted(v)) for k, v in want_zones.items())), case)], 1, 0
    has_ic = any(c['ic'] for c in spec['countries'])
    first_k = 2 if has_ic else 1
    viols = []
    moved = False
    try:
        em, sol = topo.solve_exact(r, H)
        mode = 'exact'
    except exact.NonAffine:
        mode = 'float'
    except (exact.Indeterminate, exact.Inconsistent, exact.Unsupported) as e:
        return 'exact-%s' % type(e).__name__, False, [], 0, 0
    if mode == 'exact':
        for k in range(first_k, H + 1):
            for cur, z in sorted(ledger.items()):
                total = Fraction(0)
                for f in z['F']:
                    d = sol[k][f] - sol[k - 1][f]
                    if d != 0:
                        moved = True
                    total += d
                if z['NET']:
                    total += sol[k][z['NET']]
                if total != 0:
                    viols.append(core.violation(
                        'not-conserved', 'currency %s period %d: sum dF + NET = %s (%.6g)' % (cur, k, total, float(total)),
                        case))
        # oracle self-check against the library's float solution (when it converged)
        if r.error is None:
            worst = 0.0
            for k in range(0, H + 1):
                for v, x in r.series.items():
                    if v in sol[k] and len(x) > k:
                        worst = max(worst, abs(float(sol[k][v]) - x[k]) / (1.0 + abs(x[k])))
            if worst > 1e-3:
                # the library's solver and the exact solver disagree on the same text: not this property's
                # business (C02 judges the solver) -- reported as an outcome, never as a violation
                return 'exact-vs-float-disagree', moved, viols, H, H
        return ('exact-ok' if not viols else 'exact-violation'), moved, viols, (H + 1), H
    # ---- float gap oracle (non-affine block)
    if r.error is not None:
        return 'float-not-converged', False, [], 0, 0
    ser = r.series
    indet = 0
    for k in range(first_k, H + 1):
        for cur, z in sorted(ledger.items()):
            total = 0.0
            scale = 1.0
            for f in z['F']:
                d = ser[f][k] - ser[f][k - 1]
                scale = max(scale, abs(d))
                if d != 0:
                    moved = True
                total += d
            if z['NET']:
                total += ser[z['NET']][k]
            if abs(total) >= 1e-3 * scale:
                viols.append(core.violation('not-conserved:float', 'currency %s period %d: sum dF + NET = %g (scale %g)' % (
                    cur, k, total, scale), case))
            elif abs(total) > 2e-5 * scale:
                indet += 1
    if indet and not viols:
        return 'float-indeterminate', moved, [], (H + 1), H
    return ('float-ok' if not viols else 'float-violation'), moved, viols, (H + 1), H


def run_unit(unit, tier):
    res = core.new_result()
    dig = core.Digest()
    dig.add(topo.canon(unit['spec']))
    outcome, moved, viols, states, trans = check_spec(unit['spec'], unit['labels'])
    res['evaluations'] = 1
    res['states'] = states
    res['transitions'] = trans
    res['traces'] = 1
    res['nontrivial'] = 1 if moved else 0
    core.bump(res['outcomes'], unit['family'] + ':' + outcome)
    if outcome == 'float-indeterminate':
        res['indeterminate'] = 1
    res['violations'] = viols[:2]
    res['samples'] = [{'family': unit['family'], 'deviations': unit['labels'], 'outcome': outcome}]
    res['max_depth'] = len(unit['labels'])
    res['digest'] = dig.hex()
    return res


def replay(case):
    return check_spec(case['spec'], case.get('labels', ()))[2][:1]
