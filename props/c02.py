"""
C02 - whatever the solver returns satisfies the submitted equations.

Block grammar x solver configurations.  Every block is solved by the real EquationSolver; if it returns
normally, every reported value must be finite, lagged / exogenous / derived-only variables must hold exactly and
every simultaneous equation must hold within a bound derived from the stop test (gap oracle: hold <= 2B,
violated >= 20B).
"""
import itertools
import math

from mc import core
from mc.blocks import Block, NAMES, rhs_menu, lin, num

core.setup_repo_path()
from sfc_models.equation_solver import EquationSolver  # noqa

ID = 'C02'
LEVEL = 'exploration'
RULE = ('every block of the menu product (2 variables: 42 right-hand sides each; 3 variables: reduced menu) x dress '
        '{plain, lag + exogenous + decorative chain + alias + initial condition} x configurations {reduction on/off} x '
        '{tolerances} x {iteration caps}; divergence family (overflow within / after the damping threshold, in period 1 or '
        'switched on in a later period), transient-error family, non-linear and user-function family, re-use of one solver for a second system with the same variable names; oracle on normal '
        'return: finite numbers, lag/exogenous/derived-only exact (==), residual of simultaneous equations <= 2B (B from the stop '
        'test and the finite-difference Jacobian); non-trivial = blocks that returned normally with a genuinely simultaneous core')
ASSUMPTIONS = [
    'B_i = sum_j |a_ij| D_j + D_i, D_j = tol (1+|v_j|)(1+2 tol) follows from the documented stop test whether or not the last sweep was damped; hold <= 2B, violated >= 20B, in between indeterminate',
    'derived-only exactness is demanded (reduction on) only for variables no equation references and for bare aliases without an initial condition',
    'exceptions are recorded, not judged (C11 judges them)',
]
BOUNDS = {
    'quick': {'n2_menu': 'full', 'n3_menu': 'reduced', 'tolerances': ['1e-4', '1e-8'], 'caps': [400, 50], 'horizon': 2},
    'thorough': {'n2_menu': 'full', 'n3_menu': 'medium', 'tolerances': ['1e-4', '1e-6', '1e-8'], 'caps': [400, 50, 12], 'horizon': 3},
}

COEFS = [-1.5, -.5, .25, .5, .8, 1., 2.]
CONSTS = [0., 1., -3.5, 1e3]
MATH_ENV = dict((k, getattr(math, k)) for k in dir(math) if not k.startswith('_'))
USER_FUNCS = {'f': lambda v: 0.5 * v + 1.0, 'sat': lambda v: max(-5.0, min(5.0, v)),
              'growth': lambda a, b: (b / a - 1.) if a != 0 else float('nan'),
              # a table look-up by text label with a default: an altered label silently yields another number
              'rate': lambda label: {'band 1 - low, basic': 0.25, 'x , y': 0.5}.get(label, 0.0)}      # a growth rate from a zero level is not a number


def dress(core_eqs, kind, horizon, tol):
    eqs = list(core_eqs)
    if kind == 'plain':
        return Block(eqs, maxtime=horizon, tol=tol)
    n = len(eqs)
    # lag of x feeding y, exogenous g feeding x, decorative chain and an alias
    eqs[0] = (eqs[0][0], eqs[0][1] + ' + g')
    eqs[1] = (eqs[1][0], eqs[1][1] + ' + 0.25*LAG_x')
    eqs.append(('dw', '2*x + y'))
    eqs.append(('dv', 'dw - x'))
    eqs.append(('al', 'x'))
    return Block(eqs, lags=[('LAG_x', 'x')], ics={'x': '5.'}, exos=[('g', '[1., 2., 3., 4., 5.]')], maxtime=horizon, tol=tol)


SPECIAL = [
    # (label, block json, functions?)
    ('diverge-quadratic', Block([('x', '2*x*x + 1e200')], ics={'x': '1e10'}, maxtime=2)),
    ('diverge-fast', Block([('x', 'x*x + 2.')], ics={'x': '10.'}, maxtime=2)),
    ('diverge-pair', Block([('x', '1e308*y'), ('y', '10*x')], ics={'y': '1.'}, maxtime=2)),
    ('diverge-square-big', Block([('x', 'x*x')], ics={'x': '1e200'}, maxtime=2)),
    ('diverge-inf-minus-inf', Block([('x', '1e308*x - 1e308*y'), ('y', '3*x + 1.')], ics={'x': '2.'}, maxtime=2)),
    ('diverge-switched-on', Block([('x', '0.25*x*x + g')], ics={'x': '1.'}, exos=[('g', '[0.75, 0.75, 0.75, 0.75, 50., 50.]')], maxtime=5)),
    ('diverge-switched-linear', Block([('x', 'g*x + 1.')], exos=[('g', '[.5, .5, .5, 1e200, 1e200]')], maxtime=4)),
    ('diverge-slow', Block([('x', '200.*x + 1.')], maxtime=2)),
    ('diverge-cubic-late', Block([('x', '1.0001*x*x*x + 1e-3'), ('y', '.5*y + 1.')], ics={'x': '1.2'}, maxtime=2)),
    ('decorative-overflow', Block([('x', '.5*x + 1e300'), ('d', '1e300*x')], maxtime=2)),
    ('decorative-nan-ratio', Block([('x', '.5*x + 1e160'), ('dd', '(x*1e200)/(x*1e200)')], maxtime=2)),
    ('decorative-nan-difference', Block([('x', '.5*x + 1e160'), ('y', '.5*y + 1.'), ('dd', 'x*1e200 - x*1e200 + y')], maxtime=2)),
    ('userfunc-nan-decorative', Block([('x', '.5*x + 1.'), ('dd', 'growth(LAG_x, x)')], lags=[('LAG_x', 'x')], maxtime=3)),
    ('persistent-div0-not-last', Block([('r', 'd/h + 0*x'), ('d', '2.'), ('x', '.5*x + 1.')], exos=[('h', '[1., 1., 1., 0., 0.]')], maxtime=4)),
    ('persistent-log0-first', Block([('r', 'log10(h) + x'), ('x', '.5*x + 1.'), ('y', '.5*y + r')], exos=[('h', '[1., 1., 0., 0.]')], maxtime=3)),
    ('transient-div0', Block([('z', 't'), ('x', '1/z')], maxtime=3)),
    ('transient-div0-core', Block([('z', 't + 0.*x'), ('x', '1/z + 0.5*y'), ('y', '.5*x')], maxtime=3)),
    ('nonlinear-sqrt', Block([('x', 'sqrt(y*y + 1.)'), ('y', '0.5*x + 1')], maxtime=3)),
    ('nonlinear-sin', Block([('x', '0.5*sin(y) + 1'), ('y', '.5*x')], maxtime=3)),
    ('nonlinear-bilinear', Block([('a', '0.5'), ('x', 'a*y + 2.'), ('y', 'a*x + 1.')], maxtime=3)),
    ('userfunc', Block([('x', 'f(y)'), ('y', '.25*x + 1.')], maxtime=3)),
    ('userfunc-sat', Block([('x', 'sat(3*y)'), ('y', '.5*x + 4.')], maxtime=3)),
    ('userfunc-decorative', Block([('x', '.5*x + 1.'), ('d', 'f(x) + sat(x)')], maxtime=3)),
    ('alias-chain', Block([('a', 'b'), ('b', 'c'), ('c', '.5*x + 1.'), ('x', '.5*a + 2.'), ('d', 'a + b')], maxtime=3)),
    ('alias-of-exogenous', Block([('a', 'g'), ('x', '.5*x + a')], exos=[('g', '[1., 2., 4., 8.]')], maxtime=3)),
    ('alias-of-lag', Block([('a', 'LAG_x'), ('x', '.5*a + 1.')], lags=[('LAG_x', 'x')], ics={'x': '3.'}, maxtime=3)),
    ('decorative-tree', Block([('x', '.5*y + 1.'), ('y', '.5*x'), ('d1', 'x + y'), ('d2', 'd1*2'), ('d3', 'd1 - d2'), ('d4', 'd3 + d2 + x')], maxtime=3)),
    ('decorative-forward-chain', Block([('inc', 'y'), ('disp', 'inc'), ('base', 'disp'), ('spend', 'base + 1.5'), ('y', '.5*y + g')],
                                       exos=[('g', '[1., 3., 7., 2.]')], maxtime=3)),
    ('userfunc-label-alias', Block([('x', "rate('band 1 - low, basic') * y + 2."), ('y', '.25*al + 1.'), ('al', 'x'), ('d', "al + rate('x , y')")], maxtime=3)),
    ('weakly-coupled', Block([('x', 'g + y'), ('y', '0.0001*x + 5.'), ('d', 'x - y')], exos=[('g', '[64., 64., 64., 96.5, 96.5, 96.5]')], maxtime=5)),
    ('user-time', Block([('t', 'LAG_t + 0.25'), ('x', '.5*x + t')], lags=[('LAG_t', 't')], ics={'t': '2000.'}, maxtime=3)),
]


# the same solver object is given a second system with the same variable names (a parameter sweep)
SWEEP = [
    Block([('C', 'a1*YD + 1.'), ('YD', '.5*C + G'), ('a1', '0.6'), ('d', 'C - YD')], exos=[('G', '[10., 10., 12., 12.]')], maxtime=3),
    Block([('C', 'a1*YD + 2.'), ('YD', '.25*C + G'), ('a1', '0.8'), ('d', 'C + YD')], exos=[('G', '[10., 11., 12., 13.]')], maxtime=3),
    Block([('C', '.5*C + YD'), ('YD', 'G - 1.'), ('d', '2*C')], exos=[('G', '[5., 6., 7., 8.]')], lags=[('LAG_C', 'C')], maxtime=3),
]


def run_sweep(i, j, red, tol, cap):
    a, b2 = SWEEP[i], SWEEP[j]
    case = {'label': 'sweep', 'first': i, 'second': j, 'reduction': red, 'tol': tol, 'cap': cap}
    A = Block.from_json(a.as_json()); A.tol = tol
    B = Block.from_json(b2.as_json()); B.tol = tol
    try:
        s = EquationSolver(A.text(), run_equation_reduction=red)
        s.MaxIterations = cap
        s.SolveEquation()
        s.ParseString(B.text())
        s.SolveEquation()
    except Exception as e:
        return 'raised:' + type(e).__name__, [], 0, False
    viols, indet, sim = judge(B, s.TimeSeries, red, tol, case)
    return ('returned-ok' if not viols else 'returned-violation'), viols, indet, sim


def run_two_function_solvers(red, tol):
    """Solver 1 registers f, solver 2 registers ANOTHER function under the same name, then solver 1 is solved."""
    case = {'label': 'two-function-solvers', 'reduction': red, 'tol': tol}
    blk = Block([('x', 'f(y) + 1.'), ('y', '.25*x'), ('d', 'f(x) - y')], maxtime=3, tol=tol)
    try:
        s1 = EquationSolver(blk.text(), run_equation_reduction=red)
        s1.AddFunction('f', USER_FUNCS['f'])
        s2 = EquationSolver('p = f(q)\nq = .5*p + 1.\nMaxTime = 2', run_equation_reduction=red)
        s2.AddFunction('f', lambda v: 0.25 * v + 4.0)
        s2.SolveEquation()
        s1.SolveEquation()
    except Exception as e:
        return 'raised:' + type(e).__name__, [], 0, False
    viols, indet, sim = judge(blk, s1.TimeSeries, red, tol, case)
    return ('returned-ok' if not viols else 'returned-violation'), viols, indet, sim


def run_steady_then_solve(i, red, tol):
    """The optional initial steady-state search runs in front of the solve; the periods must still meet the submitted tolerance."""
    case = {'label': 'steady-then-solve', 'first': i, 'reduction': red, 'tol': tol}
    blk = Block.from_json(SWEEP[i].as_json())
    blk.tol = tol
    try:
        s = EquationSolver(blk.text(), run_equation_reduction=red)
        s.ParameterSolveInitialSteadyState = True
        s.ParameterInitialSteadyStateMaxTime = 80
        s.SolveEquation()
    except Exception as e:
        return 'raised:' + type(e).__name__, [], 0, False
    viols, indet, sim = judge(blk, s.TimeSeries, red, tol, case)
    return ('returned-ok' if not viols else 'returned-violation'), viols, indet, sim


def units(tier):
    b = BOUNDS[tier]
    out = [{'kind': 'sweep', 'tols': b['tolerances']}]
    cfgs = [(red, tol, cap) for red in (True, False) for tol in b['tolerances'] for cap in b['caps']]
    m0 = rhs_menu(0, 2, COEFS, CONSTS)
    for i0 in range(len(m0)):
        out.append({'kind': 'n2', 'i0': i0, 'cfgs': cfgs, 'horizon': b['horizon']})
    if b['n3_menu'] == 'reduced':
        c3, k3 = [-.5, .5, .8], [1.]
    else:
        c3, k3 = [-1.5, -.5, .5, .8], [0., 1.]
    m3 = rhs_menu(0, 3, c3, k3, two_term=False)
    for i0 in range(len(m3)):
        out.append({'kind': 'n3', 'i0': i0, 'cfgs': cfgs, 'horizon': b['horizon'], 'c3': c3, 'k3': k3})
    for i in range(len(SPECIAL)):
        out.append({'kind': 'special', 'index': i, 'cfgs': [(red, tol, cap) for red in (True, False)
                                                            for tol in b['tolerances'] for cap in sorted(set(b['caps'] + [400, 12]))]})
    return out


# ---------------------------------------------------------------------------------------------

def solve(block, red, tol, cap, funcs=False, tolsrc='text'):
    blk = Block.from_json(block.as_json())
    blk.tol = tol
    if tolsrc != 'text':
        blk.tol = '1e-2'           # the text states a loose tolerance; the solver attribute takes precedence
    s = EquationSolver(blk.text(), run_equation_reduction=red)
    if tolsrc == 'attribute-after-parse':
        s.ParameterErrorTolerance = float(tol)
    s.MaxIterations = cap
    if funcs:
        for k, f in USER_FUNCS.items():
            s.AddFunction(k, f)
    s.SolveEquation()
    return s


def feval(rhs, env):
    e = dict(MATH_ENV)
    e.update(USER_FUNCS)
    e.update(env)
    return eval(rhs, {'__builtins__': {'abs': abs, 'min': min, 'max': max, 'float': float, 'pow': pow, 'round': round, 'sum': sum}}, e)


def tokens(rhs):
    import re
    return set(re.findall(r'[A-Za-z_][A-Za-z_0-9]*', rhs))


def judge(block, series, red, tol, case):
    """Oracle for a normally returned solve.  Returns (violations, indeterminate count, simultaneous?)."""
    viols = []
    indet = 0
    tolf = float(tol)
    H = block.maxtime
    eqs = list(block.eqs)
    names = [v for v, r in eqs]
    if 't' not in names and 't' not in [l for l, s in block.lags] and 't' not in [v for v, r in block.exos]:
        eqs.append(('t', 'k'))
        names.append('t')
    lagn = dict(block.lags)
    exon = dict(block.exos)
    allv = names + list(lagn) + list(exon) + ['k']

    def V(key, what):
        viols.append(core.violation(key, what, case))
    for v in allv:
        if v not in series:
            V('variable-missing', '%s missing from the result' % v)
            return viols, indet, False
        if len(series[v]) != H + 1:
            V('wrong-length', '%s has %d values, horizon+1 = %d' % (v, len(series[v]), H + 1))
            return viols, indet, False
        for k, x in enumerate(series[v]):
            if isinstance(x, bool) or not isinstance(x, (int, float)) or not math.isfinite(x):
                V('nonfinite-reported-as-solved', '%s[%d] = %r reported by a normal return' % (v, k, x))
                return viols, indet, False
    referenced = set()
    for v, r in eqs:
        referenced |= (tokens(r) - {v}) if False else tokens(r)
    for l, s in block.lags:
        referenced.add(s)
    self_ref = dict((v, v in tokens(r)) for v, r in eqs)
    simultaneous = False
    for k in range(1, H + 1):
        env = dict((v, series[v][k]) for v in allv)
        for l, s in block.lags:
            if series[l][k] != series[s][k - 1]:
                V('lag-not-exact', '%s[%d] = %r but %s[%d] = %r' % (l, k, series[l][k], s, k - 1, series[s][k - 1]))
        for g, r in block.exos:
            want = feval(r, {})
            want = want[k] if isinstance(want, (list, tuple)) else want
            if series[g][k] != want:
                V('exogenous-not-exact', '%s[%d] = %r, supplied %r' % (g, k, series[g][k], want))
        for v, r in eqs:
            try:
                val = feval(r, env)
            except (ZeroDivisionError, ValueError, OverflowError) as e:
                V('equation-not-evaluable-at-result', 'period %d: %s = %s raises %r at the reported values' % (k, v, r, e))
                continue
            got = series[v][k]
            unreferenced = (v not in referenced) or (v in tokens(r) and False)
            is_alias = r.strip() in allv and v not in block.ics
            exact_required = red and ((v not in referenced) or is_alias) and not self_ref[v]
            if exact_required:
                if got != val:
                    V('derived-only-not-exact', 'period %d: %s = %r but its equation %s gives %r at the reported values' % (k, v, got, r, val))
                continue
            # residual bound from the stop test
            deps = [u for u in tokens(r) if u in names]
            if deps:
                simultaneous = True
            B = tolf * (1 + abs(got)) * (1 + 2 * tolf)
            for u in deps:
                h = max(1e-6, 1e-6 * abs(env[u]))
                e2 = dict(env)
                e2[u] = env[u] + h
                try:
                    a = abs(feval(r, e2) - val) / h
                except (ZeroDivisionError, ValueError, OverflowError):
                    a = 0.0
                B += a * tolf * (1 + abs(env[u])) * (1 + 2 * tolf)
            B += 1e-12 * (1 + abs(got))      # rounding of the evaluation itself
            res = abs(val - got)
            if res <= 2 * B:
                continue
            if res >= 20 * B:
                V('residual-exceeds-bound', 'period %d: |%s - (%s)| = %.3g, bound B = %.3g (tol %s)' % (k, v, r, res, B, tol))
            else:
                indet += 1
    return viols, indet, simultaneous


def run_case(label, block, red, tol, cap, funcs, tolsrc='text'):
    case = {'label': label, 'block': block.as_json(), 'reduction': red, 'tol': tol, 'cap': cap, 'funcs': funcs}
    if tolsrc != 'text':
        case['tolsrc'] = tolsrc
    try:
        s = solve(block, red, tol, cap, funcs, tolsrc)
    except Exception as e:
        return 'raised:' + type(e).__name__, [], 0, False
    viols, indet, sim = judge(block, s.TimeSeries, red, tol, case)
    return ('returned-ok' if not viols else 'returned-violation'), viols, indet, sim


def run_unit(unit, tier):
    res = core.new_result()
    dig = core.Digest()
    cases = []
    if unit['kind'] in ('n2', 'n3'):
        n = 2 if unit['kind'] == 'n2' else 3
        if n == 2:
            menus = [rhs_menu(i, 2, COEFS, CONSTS) for i in range(2)]
        else:
            menus = [rhs_menu(i, 3, unit['c3'], unit['k3'], two_term=False) for i in range(3)]
        first = menus[0][unit['i0']]
        for rest in itertools.product(*menus[1:]):
            picks = [first] + list(rest)
            eqs = [(NAMES[i], picks[i][0]) for i in range(n)]
            for kind in ('plain', 'dressed'):
                cases.append(('%s-%s' % (unit['kind'], kind), eqs, kind))
        for label, eqs, kind in cases:
            for red, tol, cap in unit['cfgs']:
                blk = dress(eqs, kind, unit['horizon'], tol)
                dig.add((blk.key(), red, tol, cap))
                outcome, viols, indet, sim = run_case(label, blk, red, tol, cap, False)
                res['evaluations'] += 1
                if outcome.startswith('returned') and sim:
                    res['nontrivial'] += 1
                res['indeterminate'] += indet
                core.bump(res['outcomes'], '%s:%s' % (label, outcome))
                res['violations'].extend(viols[:2])
            if kind == 'plain':
                # the tolerance given through the solver attribute after the block has been parsed (the text states a looser one)
                red, tol, cap = True, min((c[1] for c in unit['cfgs']), key=float), max(c[2] for c in unit['cfgs'])
                blk = dress(eqs, kind, unit['horizon'], tol)
                dig.add((blk.key(), red, tol, cap, 'attr'))
                outcome, viols, indet, sim = run_case(label, blk, red, tol, cap, False, tolsrc='attribute-after-parse')
                res['evaluations'] += 1
                if outcome.startswith('returned') and sim:
                    res['nontrivial'] += 1
                res['indeterminate'] += indet
                core.bump(res['outcomes'], '%s:tolerance-by-attribute:%s' % (label, outcome))
                res['violations'].extend(viols[:2])
        if cases:
            res['samples'] = [{'block': dress(cases[-1][1], cases[-1][2], unit['horizon'], '1e-4').text()}]
    elif unit['kind'] == 'sweep':
        for i in range(len(SWEEP)):
            for j in range(len(SWEEP)):
                for red in (True, False):
                    for tol in unit['tols']:
                        dig.add(('sweep', i, j, red, tol))
                        outcome, viols, indet, sim = run_sweep(i, j, red, tol, 400)
                        res['evaluations'] += 1
                        if outcome.startswith('returned'):
                            res['nontrivial'] += 1
                        res['indeterminate'] += indet
                        core.bump(res['outcomes'], 'sweep:' + outcome)
                        res['violations'].extend(viols[:2])
        for red in (True, False):
            for tol in list(unit['tols']) + ['1e-10']:
                for label, fn in (('two-function-solvers', lambda: run_two_function_solvers(red, tol)),
                                  ('steady-then-solve-0', lambda: run_steady_then_solve(0, red, tol)),
                                  ('steady-then-solve-1', lambda: run_steady_then_solve(1, red, tol))):
                    dig.add((label, red, tol))
                    outcome, viols, indet, sim = fn()
                    res['evaluations'] += 1
                    if outcome.startswith('returned'):
                        res['nontrivial'] += 1
                    res['indeterminate'] += indet
                    core.bump(res['outcomes'], label + ':' + outcome)
                    res['violations'].extend(viols[:2])
        res['samples'] = [{'history': 'solve block A, then ParseString(block B with the same variable names) on the same solver and solve', 'B': SWEEP[1].text()}]
    else:
        label, blk = SPECIAL[unit['index']]
        funcs = 'userfunc' in label
        for red, tol, cap in unit['cfgs']:
            dig.add((blk.key(), red, tol, cap))
            outcome, viols, indet, sim = run_case(label, blk, red, tol, cap, funcs)
            res['evaluations'] += 1
            if outcome.startswith('returned'):
                res['nontrivial'] += 1
            res['indeterminate'] += indet
            core.bump(res['outcomes'], '%s:%s' % (label, outcome))
            res['violations'].extend(viols[:2])
        if label == 'weakly-coupled':
            # boundary value of the tolerance: 0 ("iterate until nothing moves"), stated in the text or given through the attribute
            for red in (True, False):
                for tolsrc in ('text', 'attribute-after-parse'):
                    dig.add((blk.key(), red, '0', tolsrc))
                    outcome, viols, indet, sim = run_case(label, blk, red, '0', 400, funcs, tolsrc=tolsrc)
                    res['evaluations'] += 1
                    if outcome.startswith('returned'):
                        res['nontrivial'] += 1
                    res['indeterminate'] += indet
                    core.bump(res['outcomes'], '%s:tolerance-zero:%s:%s' % (label, tolsrc, outcome))
                    res['violations'].extend(viols[:2])
        res['samples'] = [{'special': label, 'block': blk.text()}]
    best = {}
    for v in res['violations']:
        best.setdefault(v['key'], v)
    res['violations'] = list(best.values())
    res['digest'] = dig.hex()
    return res


def replay(case):
    if case.get('label') == 'two-function-solvers':
        return run_two_function_solvers(case['reduction'], case['tol'])[1][:1]
    if case.get('label') == 'steady-then-solve':
        return run_steady_then_solve(case['first'], case['reduction'], case['tol'])[1][:1]
    if case.get('label') == 'sweep':
        return run_sweep(case['first'], case['second'], case['reduction'], case['tol'], case['cap'])[1][:1]
    blk = Block.from_json(case['block'])
    return run_case(case['label'], blk, case['reduction'], case['tol'], case['cap'], case.get('funcs', False), case.get('tolsrc', 'text'))[1][:1]
