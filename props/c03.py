"""
C03 - equation reduction never changes any solution value.

Differential exploration: every block of a feature product (alias chains to simultaneous / constant / lagged /
exogenous / time targets, declared forwards or backwards, users of the aliases, decorative trees, an initial
condition on each kind of variable in turn, a lag taken of each kind) is solved twice by the real
EquationSolver - run_equation_reduction=True and False - and the two results must list the same variables with
the same series, k=0 included.
"""
import itertools
import math

from mc import core
from mc.blocks import Block

core.setup_repo_path()
from sfc_models.equation_solver import EquationSolver  # noqa

ID = 'C03'
LEVEL = 'exploration'
RULE = ('blocks = core {cyclic contraction, acyclic} x alias target {simultaneous, constant, lagged, exogenous, time} x chain '
        'length 1..3 x declaration order {forward, reverse} x alias user {none, +1, mixed} x decorative tree {none, tree} x '
        'initial condition on {none, first alias, last alias, target, user, decorative, lag variable, constant} x lag taken of '
        '{none, last alias, user, decorative} (+ int-valued decorative constants in every block; + the initial steady-state search switched on for the stable cores); each solved with reduction on and off; oracle: same variable set, k=0 exactly equal, '
        'k>=1 bit-for-bit for acyclic cores and within a gap (<=1e-6 rel. holds, >=1e-4 rel. violated) for cyclic cores solved at '
        'tolerance 1e-10; non-trivial = blocks in which the reduced run actually moved or substituted variables')
ASSUMPTIONS = [
    'label family: a registered user function with a text label (10 labels x 2 quote styles, with punctuation, blanks, apostrophes and the alias name inside the string) must see the same label with and without reduction',
    'alias cycles (y=z, z=y) are excluded: documented user error (the reduced run raises "Equality loop")',
    'acyclic blocks: Jacobi reproduces the same float operations once names are substituted, chains are shorter than the 10-sweep damping threshold',
]
BOUNDS = {'quick': {'horizon': 3, 'chain': 3}, 'thorough': {'horizon': 4, 'chain': 4}}

TARGETS = ['x', 'c', 'LAG_x', 'g', 't']
USERS = ['none', 'plus1', 'mixed']
ICPOS = ['none', 'a1', 'aL', 'target', 'user', 'd1', 'lagvar', 'c']
LAGOF = ['none', 'aL', 'user', 'd1']


def make_block(corek, target, L, order, user, tree, icpos, lagof, horizon, second=False):
    eqs = []
    if corek == 'cyclic':
        eqs += [('x', '.25*y + g + 1.'), ('y', '.5*x + c')]
    else:
        eqs += [('x', '3*t + g'), ('y', '2*x + c')]
    eqs.append(('c', '2.5'))
    # unreferenced constants written as Python ints / int-valued expressions (time-zero pass must treat them like floats)
    eqs.append(('ni', '3'))
    eqs.append(('nb', '2*6 + c*0'))
    chain = []
    prev = target
    for i in range(1, L + 1):
        chain.append(('a%d' % i, prev))
        prev = 'a%d' % i
    if order == 'reverse':
        chain = list(reversed(chain))
    aL = 'a%d' % L
    tail = []
    if user == 'plus1':
        tail.append(('u', '%s + 1' % aL))
    elif user == 'mixed':
        tail.append(('u', '2*a1 - %s + y' % aL))
    if tree:
        tail += [('d3', 'd1 - d2'), ('d1', '%s + y' % aL), ('d2', 'd1*2')]
    lags = [('LAG_x', 'x')]
    if lagof != 'none':
        src = {'aL': aL, 'user': 'u', 'd1': 'd1'}[lagof]
        if (src == 'u' and user == 'none') or (src == 'd1' and not tree):
            return None
        lags.append(('LAG_q', src))
        tail.append(('w', '2*LAG_q + 1'))
    ics = {}
    if icpos != 'none':
        v = {'a1': 'a1', 'aL': aL, 'target': target, 'user': 'u', 'd1': 'd1', 'lagvar': 'LAG_x', 'c': 'c'}[icpos]
        if v in ('g', 't') or (v == 'u' and user == 'none') or (v == 'd1' and not tree) or (icpos == 'aL' and L == 1):
            return None
        ics[v] = '5.'
    if second:
        # a second, independent alias chain on y, read by a decorative and by a lag
        chain = chain + [('b1', 'y'), ('b2', 'b1')]
        tail = tail + [('e1', 'b2 - ' + aL)]
        lags.append(('LAG_b', 'b2'))
        tail.append(('e2', 'LAG_b + e1'))
    if order == 'reverse':
        alleqs = tail + chain + eqs
    else:
        alleqs = eqs + chain + tail
    return Block(alleqs, lags=lags, ics=ics, exos=[('g', '[1., 2., 4., 8., 16., 32.]')], maxtime=horizon, tol='1e-10')


def ic_first(text):
    """The same block with every initial-condition line moved in front of the equations."""
    lines = text.split('\n')
    head = [l for l in lines if '(0)' in l.split('=')[0] and '=' in l]
    return '\n'.join(head + [l for l in lines if l not in head])


def solve(block, red, steady=False, twice=False, icfirst=False):
    s = EquationSolver(ic_first(block.text()) if icfirst else block.text(), run_equation_reduction=red)
    s.MaxIterations = 2000
    if red and twice:
        s.Parser.EquationReduction()      # the (public, idempotent) reduction called once more on the reduced parser
    if steady:
        s.ParameterSolveInitialSteadyState = True
        s.ParameterInitialSteadyStateMaxTime = 60
        s.ParameterInitialSteadyStateErrorToler = 1e-9
    s.SolveEquation()
    return s


def compare(block, exact_required, case, steady=False, twice=False, icfirst=False):
    try:
        a = solve(block, True, steady, twice, icfirst)
    except Exception as e:
        ea = e
        a = None
    try:
        b = solve(block, False, steady, icfirst=icfirst)
    except Exception as e:
        eb = e
        b = None
    if a is None and b is None:
        return 'both-raise', None, False
    if a is None or b is None:
        which = 'reduced' if a is None else 'unreduced'
        err = ea if a is None else eb
        return 'one-raises', core.violation('reduction-changes-outcome:%s-run-raises' % which,
                                            '%s run raises %s: %s; the other returns' % (which, type(err).__name__, str(err)[:150]), case), False
    moved = len(a.Parser.Decoration) > 0
    A, B = a.TimeSeries, b.TimeSeries
    if set(A) != set(B):
        return 'varset', core.violation('reduction-changes-variable-set', 'variables differ: %s' % sorted(set(A) ^ set(B)), case), moved
    indet = False
    for v in sorted(A):
        if len(A[v]) != len(B[v]):
            return 'length', core.violation('reduction-changes-length', '%s: %d vs %d values' % (v, len(A[v]), len(B[v])), case), moved
        for k in range(len(A[v])):
            x, y = A[v][k], B[v][k]
            if x == y:
                continue
            if k == 0 or exact_required:
                return 'differs', core.violation(
                    'reduction-changes-value:' + classify(case, v, k),
                    '%s[%d] = %r with reduction, %r without' % (v, k, x, y), case), moved
            d = abs(x - y) / (1 + abs(y))
            if d >= 1e-4:
                return 'differs', core.violation('reduction-changes-value:' + classify(case, v, k),
                                                 '%s[%d] = %r with reduction, %r without' % (v, k, x, y), case), moved
            if d > 1e-6:
                indet = True
    return ('indeterminate' if indet else 'same'), None, moved


# user function taking a text label: the reduction rewrites equations that contain string literals
LABELS = ['band 1 - low, basic', 'a-b', 'x + al', "it's, so", 'two  blanks', ' lead', 'al', 'say "hi", now', 'k - 1 ; t', 'Exo genous , x']
# ('#', '=' and a lag spelling inside a string literal are outside the line format of the parser, which cuts at '#' and '=' first)


def _pick(label, v):
    h = sum((i + 1) * ord(ch) for i, ch in enumerate(label)) % 97
    return v * (1. + h / 100.)


def label_cases():
    out = []
    for lab in LABELS:
        for q in ("'", '"'):
            if q in lab:
                continue
            for alias_user in ('al', 'x'):      # with / without an alias to substitute in the same system
                out.append({'kind': 'labels', 'label': lab, 'quote': q, 'alias_user': alias_user})
    return out


def check_label(case):
    lit = case['quote'] + case['label'] + case['quote']
    text = ('x = .5*y + pick(%s, g)\ny = .25*x + %s\nal = x\nu = al + pick(%s, 1.)\nMaxTime = 3\nErr_Tolerance = 1e-10\nexogenous\ng = [1., 2., 4., 8.]'
            % (lit, case['alias_user'], lit))
    case = dict(case, text=text)
    runs = []
    for red in (True, False):
        s = EquationSolver(text, run_equation_reduction=red)
        s.AddFunction('pick', _pick)
        s.MaxIterations = 2000
        try:
            s.SolveEquation()
        except Exception as e:
            runs.append(e)
        else:
            runs.append(s)
    a, b = runs
    if isinstance(a, Exception) and isinstance(b, Exception):
        return 'both-raise', None
    if isinstance(a, Exception) or isinstance(b, Exception):
        which = 'reduced' if isinstance(a, Exception) else 'unreduced'
        err = a if isinstance(a, Exception) else b
        return 'one-raises', core.violation('reduction-changes-outcome:%s-run-raises:string-literal' % which, '%s run raises %r' % (which, err), case)
    want = _pick(case['label'], 1.)
    for v in sorted(b.TimeSeries):
        if v not in a.TimeSeries:
            return 'varset', core.violation('reduction-changes-variable-set', '%s missing with reduction' % v, case)
        for k, (x, y) in enumerate(zip(a.TimeSeries[v], b.TimeSeries[v])):
            if x != y and (k == 0 or abs(x - y) / (1 + abs(y)) >= 1e-6):
                return 'differs', core.violation('reduction-changes-value:string-literal', '%s[%d] = %r with reduction, %r without (label %r)' % (v, k, x, y, case['label']), case)
    # absolute anchor: u - al is the function of the label applied to 1.
    for k in range(1, 4):
        if abs((a.TimeSeries['u'][k] - a.TimeSeries['al'][k]) - want) > 1e-9:
            return 'label-changed', core.violation('string-literal-changed', 'pick(%r, 1.) evaluates to %r, expected %r' % (
                case['label'], a.TimeSeries['u'][k] - a.TimeSeries['al'][k], want), case)
    return 'same', None


def check_nan_decorative(variant):
    """A variable nothing depends on evaluates to NaN in period 1: with and without reduction the solve must end the same way
    (both refuse; a run that returns must not hold a NaN)."""
    case = {'kind': 'nan-decorative', 'variant': variant}
    if variant == 'function':
        text = 'x = .5*x + 1.\ngrowth = pct(LAG_x, x)\nLAG_x = x(k-1)\nMaxTime = 3'
    else:
        text = 'x = .5*x + 1e160\ngrowth = x*1e200 - x*1e200\nMaxTime = 2'
    outs = []
    for red in (True, False):
        s = EquationSolver(text, run_equation_reduction=red)
        s.AddFunction('pct', lambda a, b: (b / a - 1.) if a != 0 else float('nan'))
        try:
            s.SolveEquation()
        except Exception as e:
            outs.append('raised')
        else:
            bad = [v for v, x in s.TimeSeries.items() if any(isinstance(y, float) and y != y for y in x)]
            outs.append('returned-with-nan' if bad else 'returned')
    if outs[0] != outs[1] or 'returned-with-nan' in outs:
        return core.violation('reduction-changes-outcome:nan-decorative', 'with reduction: %s, without: %s' % (outs[0], outs[1]), dict(case, text=text))
    return None


def classify(case, v, k):
    f = case['features']
    if f['icpos'] in ('a1', 'aL'):
        return 'ic-on-alias'
    return 'k0' if k == 0 else 'k>=1'


def units(tier):
    out = []
    L = BOUNDS[tier]['chain']
    for corek in ('cyclic', 'acyclic'):
        for target in TARGETS:
            for n in range(1, L + 1):
                for order in ('forward', 'reverse'):
                    out.append({'core': corek, 'target': target, 'L': n, 'order': order, 'horizon': BOUNDS[tier]['horizon']})
    out.append({'kind': 'labels'})
    return out


def run_unit(unit, tier):
    res = core.new_result()
    dig = core.Digest()
    if unit.get('kind') == 'labels':
        for case in label_cases():
            dig.add(sorted(case.items()))
            outcome, v = check_label(case)
            res['evaluations'] += 1
            res['nontrivial'] += 1
            core.bump(res['outcomes'], 'labels:' + outcome)
            if v:
                res['violations'].append(v)
        for variant in ('function', 'overflow'):
            dig.add(('nan-decorative', variant))
            v = check_nan_decorative(variant)
            res['evaluations'] += 1
            res['nontrivial'] += 1
            core.bump(res['outcomes'], 'nan-decorative:' + ('ok' if not v else 'violation'))
            if v:
                res['violations'].append(v)
        res['samples'].append({'label family': label_cases()[0]})
        res['digest'] = dig.hex()
        return res
    seconds = (False,) if tier == 'quick' else (False, True)
    for user, tree, icpos, lagof, second in itertools.product(USERS, (False, True), ICPOS, LAGOF, seconds):
        blk = make_block(unit['core'], unit['target'], unit['L'], unit['order'], user, tree, icpos, lagof, unit['horizon'], second)
        if blk is None:
            continue
        feats = {'core': unit['core'], 'target': unit['target'], 'L': unit['L'], 'order': unit['order'], 'user': user,
                 'tree': tree, 'icpos': icpos, 'lagof': lagof, 'horizon': unit['horizon'], 'second': second}
        case = {'features': feats, 'text': blk.text()}
        dig.add(blk.key())
        outcome, v, moved = compare(blk, unit['core'] == 'acyclic', case)
        res['evaluations'] += 1
        if moved:
            res['nontrivial'] += 1
        if outcome == 'indeterminate':
            res['indeterminate'] += 1
        core.bump(res['outcomes'], unit['core'] + ':' + outcome)
        if v:
            res['violations'].append(v)
        if not res['samples']:
            res['samples'].append({'block': blk.text()})
        if icpos != 'none':
            # the same block written with the initial-condition lines in front of the equations
            case4 = {'features': dict(feats, icfirst=True), 'text': ic_first(blk.text())}
            dig.add((blk.key(), 'icfirst'))
            outcome, v, moved = compare(blk, unit['core'] == 'acyclic', case4, icfirst=True)
            res['evaluations'] += 1
            if moved:
                res['nontrivial'] += 1
            core.bump(res['outcomes'], unit['core'] + ':ic-first:' + outcome)
            if v:
                v['key'] = v['key'] + ':ic-line-first'
                res['violations'].append(v)
        if icpos == 'none' and lagof in ('none', 'aL'):
            case3 = {'features': dict(feats, twice=True), 'text': blk.text()}
            dig.add((blk.key(), 'twice'))
            outcome, v, moved = compare(blk, unit['core'] == 'acyclic', case3, twice=True)
            res['evaluations'] += 1
            core.bump(res['outcomes'], unit['core'] + ':reduced-twice:' + outcome)
            if v:
                v['key'] = 'reduction-called-twice:' + v['key']
                res['violations'].append(v)
        # configuration: the optional initial steady-state search in front of the solve (cyclic = stable cores only)
        if unit['core'] == 'cyclic' and icpos in ('none', 'a1') and tree:
            case2 = {'features': dict(feats, steady=True), 'text': blk.text()}
            dig.add((blk.key(), 'steady'))
            outcome, v, moved = compare(blk, False, case2, steady=True)
            res['evaluations'] += 1
            if moved:
                res['nontrivial'] += 1
            if outcome == 'indeterminate':
                res['indeterminate'] += 1
            core.bump(res['outcomes'], unit['core'] + ':steady:' + outcome)
            if v:
                res['violations'].append(v)
    best = {}
    for v in res['violations']:
        best.setdefault(v['key'], v)
    res['violations'] = list(best.values())
    res['digest'] = dig.hex()
    return res


def replay(case):
    if case.get('kind') == 'nan-decorative':
        v = check_nan_decorative(case['variant'])
        return [v] if v else []
    if case.get('kind') == 'labels':
        o, v = check_label(dict((k, case[k]) for k in ('kind', 'label', 'quote', 'alias_user')))
        return [v] if v else []
    f = case['features']
    blk = make_block(f['core'], f['target'], f['L'], f['order'], f['user'], f['tree'], f['icpos'], f['lagof'], f['horizon'], f.get('second', False))
    o, v, m = compare(blk, f['core'] == 'acyclic' and not f.get('steady'), case, steady=bool(f.get('steady')), twice=bool(f.get('twice')),
                      icfirst=bool(f.get('icfirst')))
    return [v] if v else []
