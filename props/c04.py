"""
C04 - markets clear and supply is fully allocated among suppliers.

Topology grammar (specs with at least one market), exact rational solution of the emitted equations; the set of
demanders / suppliers / holders of every market is computed from the spec, not from the library's search loops.
"""
import json
from fractions import Fraction

from mc import core, exact, topo

ID = 'C04'
LEVEL = 'model_checking'
RULE = ('state = (spec, declaration order in {canonical, reversed}, market, period); all specs within the deviation bound in the families single / federated / two zones '
        '(incl. goods markets with a second supplier from another region or another currency, money market with defaulted and '
        'explicit holders and a non-default code, one or two interest-bearing assets with portfolio weights); oracles (exact): '
        'DEM_m == sum of the demanders demands, SUP_m == DEM_m, sum of supplier assignments == SUP_m, every supplier\'s own '
        'supply variable and its F inflow == assignment (x cross rate), every demander\'s F holds exactly -DEM, '
        'sum of asset demands == F, defaulted money demand == F; non-trivial = market with non-zero turnover')
ASSUMPTIONS = [
    'demander sets derived from the spec: same-country sectors declaring DEM_<code>, other-country sectors of the zone declaring DEM_<fullcode>',
    'k=0 values taken from the library; periods 1..3 solved exactly; PC-style AfterTax/F weight checked with a float gap oracle',
]
BOUNDS = {
    'quick': {'single': 2, 'federated': 2, 'two_zones': 1},
    'thorough': {'single': 3, 'federated': 3, 'two_zones': 2, 'three_zones': 1},
}


def units(tier):
    out = []
    for fam, labels, spec in topo.all_specs(BOUNDS[tier]):
        out.append({'family': fam, 'labels': labels, 'spec': spec, 'order': 'canonical'})
        # the same economy declared back to front (dependencies respected): holders before issuers, markets before participants
        out.append({'family': fam, 'labels': labels + ['declared-in-reverse'], 'spec': spec, 'order': 'reverse'})
        # a SECOND foreign producer with its own allocation rule on a market that already has one (seventh wave: the grammar
        # itself allows one import link per market; the oracle below sums over all of them)
        imports = [l for l in spec.get('links', []) if l[0] == 'import']
        if len(imports) == 1 and len(imports[0]) == 3 and len(spec['countries']) >= 3:
            for c in spec['countries']:
                if c['code'] in imports[0][1:3]:
                    continue
                s2 = json.loads(json.dumps(spec))
                s2['links'].append(['import', c['code'], imports[0][2]])
                if topo.well_formed(s2):
                    out.append({'family': fam, 'labels': labels + ['second-importer:%s>%s' % (c['code'], imports[0][2])], 'spec': s2, 'order': 'canonical'})
    # in every tier: the three-zone base economy (non-unit exchange rates) with two foreign producers - same sector code, different
    # countries - each holding its own quota of the third country's goods market
    base3 = topo.family_three_zones()[1]
    codes = [c['code'] for c in base3['countries']]
    for dst in codes:
        a, b = [x for x in codes if x != dst]
        for first, second in ((a, b), (b, a)):
            s2 = json.loads(json.dumps(base3))
            s2['links'] += [['import', first, dst], ['import', second, dst]]
            if topo.well_formed(s2):
                for order in ('canonical', 'reverse'):
                    out.append({'family': 'three_zones', 'labels': ['import:%s>%s' % (first, dst), 'second-importer:%s>%s' % (second, dst)] +
                                (['declared-in-reverse'] if order == 'reverse' else []), 'spec': s2, 'order': order})
    return out


def reverse_order(spec):
    out = {}
    for c in spec['countries']:
        decls = topo.declarations(c)
        ids = [d[0] for d in decls]
        deps = dict(decls)
        rev = list(reversed(ids))
        changed = True
        while changed:
            changed = False
            pos = dict((x, i) for i, x in enumerate(rev))
            for d in ids:
                for a in deps[d]:
                    if pos[a] > pos[d]:
                        rev.remove(a)
                        rev.insert(rev.index(d), a)
                        changed = True
                        pos = dict((x, i) for i, x in enumerate(rev))
        out[c['code']] = rev
    return out


def fullcode(spec, ccode, scode):
    n = len(spec['countries']) + (1 if spec.get('ext') else 0)
    return (ccode + '_' + scode) if n > 1 else scode


def var(spec, ccode, scode, local):
    return fullcode(spec, ccode, scode) + '__' + local


class Getter(object):
    """Value access for exact (Fraction) and float solutions alike."""

    def __init__(self, sol, k, eqs, exact_mode):
        self.s = sol
        self.k = k
        self.eqs = eqs
        self.exact = exact_mode

    def __call__(self, name):
        if self.exact:
            return self.s[self.k][name]
        return self.s[name][self.k]

    def has(self, name):
        return (name in self.s[self.k]) if self.exact else (name in self.s)

    def valuation(self):
        if self.exact:
            return self.s[self.k]
        return dict((n, Fraction(x[self.k])) for n, x in self.s.items() if len(x) > self.k)

    def eq(self, a, b, scale=1.0):
        """three-valued: True / False / None(indeterminate)"""
        if self.exact:
            return a == b
        d = abs(float(a) - float(b))
        sc = max(1.0, abs(float(a)), abs(float(b)), scale)
        if d <= 2e-5 * sc:
            return True
        if d >= 1e-3 * sc:
            return False
        return None


def check_spec(spec, labels, order='canonical'):
    H = spec.get('horizon', 3)
    case = {'spec': spec, 'labels': labels, 'order': order}
    r = topo.run(spec, order=reverse_order(spec) if order == 'reverse' else None)
    msg = topo.probe_regression(spec, r, reverse_order(spec) if order == 'reverse' else None)
    if msg:
        return 'probe-breaks-model', 0, [core.violation('read-only-lookup-changes-outcome', msg, case)], 0
    if r.stage == 'build' or (r.error is not None and type(r.error).__name__ != 'ConvergenceError'):
        return 'error:%s:%s' % (r.stage, type(r.error).__name__), 0, [], 0
    em = exact.ExactModel(r.text)
    eqs = dict(em.endo)
    try:
        em, sol = topo.solve_exact(r, H)
        mode = True
    except exact.NonAffine:
        if r.error is not None:
            return 'float-not-converged', 0, [], 0
        sol = r.series
        mode = False
    except (exact.Indeterminate, exact.Inconsistent, exact.Unsupported) as e:
        return 'exact-%s' % type(e).__name__, 0, [], 0
    by = dict((c['code'], c) for c in spec['countries'])
    viols = []
    indet = [0]
    turnover = set()
    nmarkets = 0

    def V(key, what):
        viols.append(core.violation(key, what, case))

    def need(g, ok, key, what):
        if ok is None:
            indet[0] += 1
        elif not ok:
            V(key, 'period %d: %s' % (g.k, what))

    def fterms(g, fname, names):
        vals = exact.term_values(eqs[fname], g.valuation())
        return sum(v for ns, v in vals if ns & set(names))

    for k in range(1, H + 1):
        g = Getter(sol, k, eqs, mode)
        nmarkets = 0
        for c in spec['countries']:
            cc = c['code']
            decl = [d[0] for d in topo.declarations(c)]
            zone = [o for o in spec['countries'] if o['cur'] == c['cur']]
            gspec = topo.zone_gov(spec, c['cur'])
            # ---------------- goods and labour markets
            for mk in ('GOOD', 'LAB'):
                if mk not in decl:
                    continue
                nmarkets += 1
                mfull = fullcode(spec, cc, mk)
                demanders = []   # (country, sector, local var)
                if mk == 'GOOD':
                    for sid in ('HH', 'CAP'):
                        if sid in decl:
                            demanders.append((cc, sid, 'DEM_GOOD'))
                    if gspec is not None:
                        gc = topo.gov_code(gspec)
                        if gspec['code'] == cc:
                            demanders.append((cc, gc, 'DEM_GOOD'))
                        else:
                            demanders.append((gspec['code'], gc, 'DEM_' + cc + '_GOOD'))
                else:
                    demanders.append((cc, 'BUS', 'DEM_LAB'))
                dem_m = g(var(spec, cc, mk, 'DEM_' + mk))
                sup_m = g(var(spec, cc, mk, 'SUP_' + mk))
                total = sum(g(var(spec, a, b, l)) for a, b, l in demanders)
                need(g, g.eq(dem_m, total), 'market-demand-not-sum', '%s DEM = %s but demanders sum to %s' % (mfull, dem_m, total))
                need(g, g.eq(sup_m, dem_m), 'supply-not-demand', '%s SUP = %s DEM = %s' % (mfull, sup_m, dem_m))
                if dem_m != 0:
                    turnover.add((cc, mk))
                for a, b, l in demanders:
                    dname = var(spec, a, b, l)
                    booked = fterms(g, var(spec, a, b, 'F'), [dname])
                    need(g, g.eq(booked, -g(dname)), 'demander-outflow-wrong',
                         '%s books %s for %s = %s' % (var(spec, a, b, 'F'), booked, dname, g(dname)))
                # suppliers
                if mk == 'LAB':
                    suppliers = [(cc, 'HH')]
                else:
                    suppliers = [(cc, 'BUS')]
                    for l in spec['links']:
                        if l[0] == 'import' and l[2] == cc:
                            suppliers.append((l[1], 'BUS'))
                assigned_total = 0
                for a, b in suppliers:
                    sfull = fullcode(spec, a, b)
                    aname = var(spec, cc, mk, 'SUP_' + sfull)
                    assigned = g(aname)
                    assigned_total += assigned
                    own = var(spec, a, b, ('SUP_' + mk) if a == cc else ('SUP_' + cc + '_' + mk))
                    want = assigned
                    if by[a]['cur'] != c['cur']:
                        xr = 'EXT_XR__'
                        want = assigned * g(xr + c['cur']) / g(xr + by[a]['cur'])
                    need(g, g.eq(g(own), want), 'supplier-variable-wrong', '%s = %s, market assigns %s (converted %s)' % (own, g(own), assigned, want))
                    booked = fterms(g, var(spec, a, b, 'F'), [own, aname])
                    need(g, g.eq(booked, want), 'supplier-inflow-wrong', '%s books %s for its supply to %s, expected %s' % (
                        var(spec, a, b, 'F'), booked, mfull, want))
                need(g, g.eq(assigned_total, sup_m), 'allocation-not-total', '%s suppliers get %s of SUP %s' % (mfull, assigned_total, sup_m))
            # ---------------- money market
            if 'MON' in decl:
                nmarkets += 1
                code = c.get('moncode', 'MON')
                issuer = 'CB' if c['gov'] in ('TRECB', 'GOLDCB') else 'GOV'
                holders = []
                for o in zone:
                    od = [d[0] for d in topo.declarations(o)]
                    for sid in ('GOV', 'TRE', 'CB', 'HH', 'CAP', 'BUS'):
                        if sid in od and not (o['code'] == cc and sid == issuer):
                            holders.append((o['code'], sid))
                    if spec.get('manual_gold') == o['code']:
                        holders.append((o['code'], 'GB'))       # the ad-hoc gold buyer of the manual_gold deviation holds (negative) money too
                dem_m = g(var(spec, cc, code, 'DEM_' + code))
                total = sum(g(var(spec, a, b, 'DEM_' + code)) for a, b in holders)
                need(g, g.eq(dem_m, total), 'money-demand-not-sum', '%s DEM = %s holders sum %s' % (code, dem_m, total))
                need(g, g.eq(g(var(spec, cc, code, 'SUP_' + code)), dem_m), 'money-supply-not-demand', 'SUP %s DEM %s' % (
                    g(var(spec, cc, code, 'SUP_' + code)), dem_m))
                need(g, g.eq(g(var(spec, cc, issuer, 'SUP_' + code)), dem_m), 'money-issuer-supply-wrong', 'issuer supplies %s of %s' % (
                    g(var(spec, cc, issuer, 'SUP_' + code)), dem_m))
                if dem_m != 0:
                    turnover.add((cc, code))
                for a, b in holders:
                    weighted = b in ('HH', 'CAP') and (by[a]['dep'] or by[a]['gov'] in ('TRECB', 'GOLDCB'))
                    if b == 'TRE' and code == 'MON':
                        continue      # the treasury declares DEM_MON = 0.0 itself
                    if not weighted:
                        need(g, g.eq(g(var(spec, a, b, 'DEM_' + code)), g(var(spec, a, b, 'F'))), 'default-money-demand-not-F',
                             '%s = %s but F = %s' % (var(spec, a, b, 'DEM_' + code), g(var(spec, a, b, 'DEM_' + code)), g(var(spec, a, b, 'F'))))
            # ---------------- deposit-type markets
            for code in ('DEP', 'BOND'):
                if code not in decl:
                    continue
                nmarkets += 1
                issuer = 'TRE' if c['gov'] in ('TRECB', 'GOLDCB') else 'GOV'
                holders = []
                for o in zone:
                    od = [d[0] for d in topo.declarations(o)]
                    if o['dep'] or o['gov'] in ('TRECB', 'GOLDCB'):
                        for sid in ('HH', 'CAP'):
                            if sid in od and (code == 'DEP' or o.get('dep2')):
                                holders.append((o['code'], sid))
                    if 'CB' in od and code == 'DEP':
                        holders.append((o['code'], 'CB'))
                dem_m = g(var(spec, cc, code, 'DEM_' + code))
                total = sum(g(var(spec, a, b, 'DEM_' + code)) for a, b in holders)
                need(g, g.eq(dem_m, total), 'deposit-demand-not-sum', '%s DEM = %s holders sum %s' % (code, dem_m, total))
                need(g, g.eq(g(var(spec, cc, code, 'SUP_' + code)), dem_m), 'deposit-supply-not-demand', '')
                need(g, g.eq(g(var(spec, cc, issuer, 'SUP_' + code)), dem_m), 'deposit-issuer-supply-wrong', '')
                if dem_m != 0:
                    turnover.add((cc, code))
            # ---------------- portfolio allocation
            if c['dep'] or c['gov'] in ('TRECB', 'GOLDCB'):
                for sid in ('HH', 'CAP'):
                    if sid not in decl:
                        continue
                    assets = ['DEP', c.get('moncode', 'MON')] + (['BOND'] if c.get('dep2') else [])
                    total = sum(g(var(spec, cc, sid, 'DEM_' + a)) for a in assets)
                    f = g(var(spec, cc, sid, 'F'))
                    need(g, g.eq(total, f), 'asset-demands-not-F', '%s: asset demands sum to %s, F = %s' % (fullcode(spec, cc, sid), total, f))
    outcome = ('exact' if mode else 'float') + ('-ok' if not viols else '-violation')
    if indet[0] and not viols:
        outcome = 'float-indeterminate'
    return outcome, len(turnover), viols, nmarkets


def run_unit(unit, tier):
    res = core.new_result()
    dig = core.Digest()
    dig.add((topo.canon(unit['spec']), unit.get('order')))
    try:
        outcome, nturn, viols, nmarkets = check_spec(unit['spec'], unit['labels'], unit.get('order', 'canonical'))
    except KeyError as e:
        # a variable the market identities need does not exist in the emitted system
        case = {'spec': unit['spec'], 'labels': unit['labels'], 'order': unit.get('order', 'canonical')}
        outcome, nturn, nmarkets = 'variable-missing', 0, 0
        viols = [core.violation('market-variable-missing', 'variable %s is not defined in the emitted system' % (e,), case)]
    H = unit['spec'].get('horizon', 3)
    res['evaluations'] = 1
    res['states'] = nmarkets * (H + 1)
    res['transitions'] = nmarkets * H
    res['traces'] = 1
    res['nontrivial'] = 1 if nturn else 0
    res['counters']['markets_with_turnover'] = nturn
    res['counters']['markets'] = nmarkets
    core.bump(res['outcomes'], unit['family'] + ':' + outcome)
    if outcome == 'float-indeterminate':
        res['indeterminate'] = 1
    seen = set()
    for v in viols:
        if v['key'] not in seen:
            seen.add(v['key'])
            res['violations'].append(v)
    res['samples'] = [{'family': unit['family'], 'deviations': unit['labels'], 'outcome': outcome, 'markets': nmarkets}]
    res['max_depth'] = len(unit['labels'])
    res['digest'] = dig.hex()
    return res


def replay(case):
    try:
        return check_spec(case['spec'], case.get('labels', []), case.get('order', 'canonical'))[2][:1]
    except KeyError as e:
        return [core.violation('market-variable-missing', 'variable %s is not defined in the emitted system' % (e,), case)]
