"""
C05 - the generated system is closed, canonical and free of placeholder names.

(1) closure part: every topology spec of the grammar (no embedding) - oracle (a)-(e) below on Model.FinalEquations;
(2) history part: construction histories in which GetVariableName() is requested at every point of the construction
    (right after the sector exists / after all sectors exist / after full codes were generated early through the public
    LogInfo(), optionally followed by the creation of one more country) and the returned string is embedded in every
    place (other sector's equation, own sector, cash-flow definition, product term, exogenous string, global equation,
    two different names in one global equation / exogenous string, asset weight, initial-condition target), up to `depth` places per history.

Oracle on the emitted text, read by the independent reader:
 (a) every left-hand side occurs once; (b) every sector variable appears under <FullCode>__<local>, FullCode = code, or
 <country>_<code> exactly when the model has more than one country; (c) every name on a right-hand side is a defined
 variable, k, t or a permitted function; (d) no token _<digits>__... anywhere; (e) every emitted right-hand side has the
 same value as the sector-local right-hand side under corresponding valuations (exact rationals).
"""
import itertools
import math
import re
from fractions import Fraction

from mc import core, exact, topo

ID = 'C05'
LEVEL = 'model_checking'
RULE = ('states = construction histories (request point x requested variable x owning sector x set of <= depth embedding '
        'places x {one country, two countries, country added after early full-code generation}); transitions = API calls '
        'on the real objects; plus every topology spec within the bound; oracle (a)-(e) on Model.FinalEquations; '
        'non-trivial = histories in which a placeholder alias was actually handed out (request before full codes exist)')
ASSUMPTIONS = [
    'permitted functions = names of the math module + float,max,min,sum,pow,abs,round',
    'Model.FinalEquations is observable even when main() subsequently fails to solve (it is assigned before the solve)',
    'names requested after an early full-code generation are only embedded when no further country is added afterwards '
    '(a name that was canonical when handed out cannot be rewritten by the library; see DESIGN.md)',
]
BOUNDS = {
    'quick': {'places_per_history': 2, 'single': 2, 'federated': 1, 'two_zones': 1, 'three_zones': 1},
    'thorough': {'places_per_history': 3, 'single': 3, 'federated': 2, 'two_zones': 2, 'three_zones': 1},
}

ALLOWED_FUNCS = set(dir(math)) | {'float', 'max', 'min', 'sum', 'pow', 'abs', 'round'}
ALIAS_RE = re.compile(r'(?<![A-Za-z0-9_])_\d+__[A-Za-z_0-9]*')

PLACES = ['other_var', 'own_var', 'cashflow_eqn', 'product_term', 'cashflow_product', 'exogenous', 'global',
          'asset_weight', 'ic_target', 'late_setrhs', 'global_two_names', 'global_name_clash', 'edit_returned_lists', 'second_request']
POINTS = ['early', 'late', 'postcodes']
VARS = ['Q', 'F', 'INC']
SRCS = ['HH', 'GOV']
CONFIGS = ['one', 'two', 'ext', 'late_country', 'late_ext', 'other_model']


def units(tier):
    out = []
    b = BOUNDS[tier]
    fam = dict((k, v) for k, v in b.items() if k != 'places_per_history')
    specs = topo.all_specs(fam)
    for i in range(0, len(specs), 8):
        out.append({'kind': 'closure', 'specs': [[f, l, s] for f, l, s in specs[i:i + 8]]})
    n = b['places_per_history']
    for config in CONFIGS:
        for point in POINTS:
            for var in VARS:
                for src in SRCS:
                    out.append({'kind': 'history', 'config': config, 'point': point, 'var': var, 'src': src, 'depth': n})
    return out


# ---------------------------------------------------------------------------------------------
# oracle

def check_model(m, case, allow_postcodes_stale=False):
    """All of (a)-(e) for a model whose main() has been called. Returns list of violations."""
    viols = []
    text = m.FinalEquations

    def V(key, what):
        viols.append(core.violation(key, what, case))
    if not text:
        return viols
    b = exact.read_block(text)
    lhs_all = b.lhs_list()
    seen = set()
    for n in lhs_all:
        if n in seen:
            V('duplicate-definition', '%s defined more than once' % n)
        seen.add(n)
    defined = set(lhs_all)
    # (d) placeholders anywhere
    for mm in ALIAS_RE.finditer(text):
        V('placeholder-survives:' + place_of(text, mm.start()), 'placeholder %s in emitted text: %s' % (
            mm.group(0), line_of(text, mm.start())[:160]))
        break
    # (b) canonical names
    multi = len(m.CountryList) > 1
    expected = {}
    for c in m.CountryList:
        for s in c.SectorList:
            full = (c.Code + '_' + s.Code) if multi else s.Code
            for local in s.EquationBlock.GetEquationList():
                rhs = s.EquationBlock[local].RHS()
                expected[full + '__' + local] = (s, local, full)
    globals_ = set(v[0] for v in m.GlobalVariables)
    for n in sorted(expected):
        if n not in defined:
            V('canonical-name-missing', '%s is not defined in the emitted system' % n)
            break
    for n in sorted(defined):
        if '__' in n:
            if n not in expected:
                V('non-canonical-name-defined', '%s is defined but is not a canonical name of this model' % n)
                break
        elif n not in globals_:
            V('unknown-global-defined', '%s defined but no such global equation' % n)
    for n in b.ic:
        if n not in defined:
            V('initial-condition-on-undefined-name', 'initial condition row for %s which is not a variable' % n)
    # (c) closure
    rows = list(b.endo) + [(l, s) for l, s in b.lagged]
    for lhs, rhs in rows:
        for tok in exact.names_in(strip_strings(rhs)):
            if tok in defined or tok in ('k', 't') or tok in ALLOWED_FUNCS:
                continue
            if ALIAS_RE.match(tok):
                continue   # reported under (d)
            V('undefined-name-on-rhs', '%s = %s uses %s which is not defined' % (lhs, rhs[:100], tok))
            break
    # (e) meaning
    names = sorted(defined | set(['k', 't']))
    val = dict((n, Fraction(3 + 2 * i, 7 + (i % 5))) for i, n in enumerate(names))
    endo = dict(b.endo)
    lag = dict(b.lagged)
    exo = dict(b.exo)
    for n, (s, local, full) in sorted(expected.items()):
        lrhs = s.EquationBlock[local].RHS()
        if lrhs.startswith('EXOGENOUS'):
            want = lrhs.replace('EXOGENOUS', '').replace(' ', '')
            got = exo.get(n)
            if got is None or got.replace(' ', '') != want:
                V('exogenous-row-changed', '%s: sector says %r, emitted %r' % (n, want, got))
            continue
        mlag = exact.LAG_RE.match(lrhs.replace('(k-1)', ' (k-1)'))
        if mlag:
            src = mlag.group(1)
            want_src = src if '__' in src else full + '__' + src
            if lag.get(n) != want_src:
                V('lag-row-changed', '%s: sector lag of %s, emitted lag of %r' % (n, want_src, lag.get(n)))
            continue
        if n not in endo:
            if n in defined:
                V('row-class-changed', '%s emitted in another class than its sector equation %r' % (n, lrhs))
            continue
        lval = dict(val)
        for loc2 in s.EquationBlock.GetEquationList():
            lval[loc2] = val.get(full + '__' + loc2, Fraction(1))
        # names handed out during construction stand for the variable of the sector they were requested from (harness record)
        for handle, (hs, hv) in getattr(m, '_verif_intent', {}).items():
            hfull = (hs.Parent.Code + '_' + hs.Code) if multi else hs.Code
            if hfull + '__' + hv in val:
                lval[handle] = val[hfull + '__' + hv]
        try:
            a = exact.eval_at(lrhs, lval)
        except (exact.Unsupported, KeyError, ZeroDivisionError, exact.NonAffine):
            continue
        try:
            g = exact.eval_at(endo[n], val)
        except (exact.Unsupported, KeyError, ZeroDivisionError, exact.NonAffine):
            continue
        if a != g:
            V('meaning-changed', '%s: sector-local %r and emitted %r differ in value' % (n, lrhs, endo[n]))
    return viols


def strip_strings(s):
    return re.sub(r'"[^"]*"|\'[^\']*\'', ' ', s)


def line_of(text, pos):
    a = text.rfind('\n', 0, pos) + 1
    e = text.find('\n', pos)
    return text[a:e if e != -1 else len(text)]


def place_of(text, pos):
    line = line_of(text, pos)
    head = text[:pos]
    if '# Exogenous Variables' in head:
        return 'exogenous-row'
    lhs = line.split('=')[0].strip()
    if '(0)' in lhs:
        return 'initial-condition-row'
    if '__' not in lhs:
        return 'global-row'
    return 'sector-row'


# ---------------------------------------------------------------------------------------------
# history part

def build_history(config, point, var, src, places):
    """Returns (model, was_alias: bool, name handed out)."""
    from sfc_models.models import Model, Country
    from sfc_models.sector import Sector, Market
    from sfc_models.sector_definitions import ConsolidatedGovernment, Household, FixedMarginBusiness, TaxFlow
    from sfc_models.external import ExternalSector
    m = Model()
    if config == 'ext':
        ExternalSector(m)
    co = Country(m, 'CO')
    S = {}
    name = [None]

    intent = {}          # name handed out -> (sector object, local variable) it was requested for
    clash = []

    def record(handle, sec, v):
        if handle in intent and (intent[handle][0] is not sec or intent[handle][1] != v):
            clash.append((handle, intent[handle][0].Code, intent[handle][1], sec.Code, v))
            return
        intent[handle] = (sec, v)

    def request():
        name[0] = S[src].GetVariableName(var)
        record(name[0], S[src], var)

    def declare(code):
        if code == 'GOV':
            S['GOV'] = ConsolidatedGovernment(co, 'GOV')
        elif code == 'HH':
            S['HH'] = Household(co, 'HH')
        elif code == 'BUS':
            S['BUS'] = FixedMarginBusiness(co, 'BUS', profit_margin=0.1)
        elif code == 'TF':
            S['TF'] = TaxFlow(co, 'TF', taxrate=0.2)
        elif code == 'LAB':
            S['LAB'] = Market(co, 'LAB')
        elif code == 'GOOD':
            S['GOOD'] = Market(co, 'GOOD')
        if code == src:
            S[src].AddVariable('Q', 'a constructor-time variable', '2.5')
            # sector-local variables spelled like the model-level time names, used by the sector's own equations
            S[src].AddVariable('t', 'transfers (a local name)', '4.5')
            S[src].AddVariable('k1', 'another local name', '1.5')
            S[src].AddVariable('SPEND', 'uses the local t', '0.8*t + 0.1*k1 + Q')
            if point == 'early':
                request()
    for code in ('GOV', 'HH', 'BUS', 'TF', 'LAB', 'GOOD'):
        if config == 'other_model' and code == 'BUS':
            # an unrelated model is started while this one is still being declared
            m_other = Model()
            Household(Country(m_other, 'QQ'), 'HH')
        declare(code)
    if config == 'two':
        zz = Country(m, 'ZZ')
        g2 = ConsolidatedGovernment(zz, 'GOV')
        h2 = Household(zz, 'HH')
        b2 = FixedMarginBusiness(zz, 'BUS')
        TaxFlow(zz, 'TF', taxrate=0.25)
        Market(zz, 'LAB')
        Market(zz, 'GOOD')
        g2.SetExogenous('DEM_GOOD', '[10.,]*6')
    if point == 'late':
        request()
    if point == 'postcodes':
        m.LogInfo()          # public; generates the full sector codes early
        if config not in ('late_country', 'late_ext'):
            request()
    if config == 'late_country':
        zz = Country(m, 'ZZ')
        g2 = ConsolidatedGovernment(zz, 'GOV')
        g2.AddVariable('IDLE', 'nothing', '1.0')
    if config == 'late_ext':
        ExternalSector(m)
    if name[0] is None:
        request()     # postcodes + a country added afterwards: the request happens after the addition
    nm = name[0]
    other = S['GOV'] if src == 'HH' else S['HH']
    own = S[src]
    S['GOV'].SetExogenous('DEM_GOOD', '[20.,]*6')
    for p in places:
        if p == 'other_var':
            other.AddVariable('W1', 'uses a name of another sector', '2*' + nm)
        elif p == 'own_var':
            own.AddVariable('W2', 'uses the full name of an own variable', nm + '+1')
        elif p == 'cashflow_eqn':
            other.AddCashFlow('-FLOWX', eqn='0.1*' + nm, desc='flow defined from a foreign name', is_income=False)
            own.AddCashFlow('+FLOWY', eqn=other.GetVariableName('FLOWX'), is_income=False)
        elif p == 'product_term':
            other.AddVariable('RATE', 'a rate', '0.5')
            other.AddVariable('SHARE', 'built from terms', '')
            other.AddTermToEquation('SHARE', 'RATE*' + nm)
            other.AddTermToEquation('SHARE', '-2*' + nm)
        elif p == 'cashflow_product':
            other.AddVariable('RATE2', 'a rate', '0.25')
            other.AddCashFlow('-' + nm + '*RATE2', is_income=False)
            own.AddCashFlow('+' + nm + '*' + other.GetVariableName('RATE2'), is_income=False)
        elif p == 'exogenous':
            other.AddVariable('XG', 'exogenous with an embedded name', '0.')
            other.SetExogenous('XG', '[1.,]*3 + [' + nm + ',]*3')
        elif p == 'global':
            m.AddGlobalEquation('WEALTH', 'model-level equation', nm + '*2')
        elif p == 'global_two_names':
            # two different names (of two sectors) in one model-level equation and in one exogenous string
            nm2 = other.GetVariableName('F')
            record(nm2, other, 'F')
            m.AddGlobalEquation('TOTAL2', 'sum over two sectors', nm + ' + ' + nm2 + ' + ' + nm)
            other.AddVariable('XG2', 'exogenous with two embedded names', '0.')
            other.SetExogenous('XG2', '[' + nm + ', ' + nm2 + ', 1., 1., 1., 1.]')
        elif p == 'global_name_clash':
            # a model-level variable spelled like a LOCAL variable of the government (TaxRate lives in the tax-flow sector, T in
            # several), read as a bare name by a sector that is processed later: it must stay the global, unqualified name
            m.AddGlobalEquation('TaxRate', 'model-level parameter', '0.125')
            m.AddGlobalEquation('Q', 'model-level parameter named like a sector variable', '3.5')
            S['GOOD'].AddVariable('USEGLOBAL', 'reads two model-level names', 'TaxRate*100. + Q')
            S['LAB'].AddVariable('USEGLOBAL2', 'reads a model-level name', 'Q*2')
        elif p == 'edit_returned_lists':
            # the caller edits every list the sectors hand out
            for sec in S.values():
                lst = sec.GetVariables()
                del lst[:]
                lst2 = sec.EquationBlock.GetEquationList()
                lst2.append('BOGUS')
        elif p == 'asset_weight':
            S['HH'].GenerateAssetWeighting({'DEP': '0.2 + 0.*' + nm}, 'MON')
        elif p == 'ic_target':
            own.AddInitialCondition(var, 3.0)
        elif p == 'second_request':
            # the same variable name requested from a second sector (the one declared right after HH): two different handles
            v2 = var if var in ('F', 'INC') else 'F'
            nm3 = S['BUS'].GetVariableName(v2)
            record(nm3, S['BUS'], v2)
            S['LAB'].AddVariable('W4', 'uses the name handed out by BUS', '3*' + nm3 + ' + ' + nm)
        elif p == 'late_setrhs':
            other.AddVariable('W3', 'set later', '')
            other.SetEquationRightHandSide('W3', nm + '-1')
        else:
            raise ValueError(p)
    m.MaxTime = 1
    m._verif_intent = intent
    m._verif_clash = clash
    was_alias = bool(ALIAS_RE.match(nm))
    return m, was_alias, nm


def run_history(config, point, var, src, places):
    case = {'kind': 'history', 'config': config, 'point': point, 'var': var, 'src': src, 'places': list(places)}
    try:
        m, was_alias, nm = build_history(config, point, var, src, places)
    except Exception as e:
        return 'build-error:%s' % type(e).__name__, False, [core.violation(
            'construction-raises:%s' % type(e).__name__, 'history raised %r' % (e,), case)]
    if m._verif_clash:
        h, c1, v1, c2, v2 = m._verif_clash[0]
        return 'handle-clash', was_alias, [core.violation('same-name-handed-out-for-two-variables',
                                                          'GetVariableName returned %r both for %s.%s and for %s.%s' % (h, c1, v1, c2, v2), case)]
    err = None
    try:
        m.main()
    except Exception as e:
        err = e
    if not m.FinalEquations:
        return 'no-text:%s' % type(err).__name__, was_alias, [core.violation(
            'no-equations-emitted:%s' % type(err).__name__, 'main() raised %r before emitting equations' % (err,), case)]
    viols = check_model(m, case)
    return ('ok' if not viols else 'violation'), was_alias, viols


def run_unit(unit, tier):
    res = core.new_result()
    dig = core.Digest()
    if unit['kind'] == 'closure':
        for fam, labels, spec in unit['specs']:
            dig.add(topo.canon(spec))
            case = {'kind': 'closure', 'spec': spec, 'labels': labels}
            r = topo.run(spec, maxtime=0)
            res['evaluations'] += 1
            res['states'] += 1
            res['traces'] += 1
            res['transitions'] += sum(len(topo.declarations(c)) for c in spec['countries'])
            if r.stage == 'build' or not r.text:
                core.bump(res['outcomes'], 'closure:no-text')
                continue
            viols = check_model(r.built.model, case)
            if r.built.model.Aliases:
                res['nontrivial'] += 1
            core.bump(res['outcomes'], 'closure:' + ('ok' if not viols else 'violation'))
            res['violations'].extend(viols[:3])
        res['samples'] = [{'closure of topology': unit['specs'][-1][1], 'family': unit['specs'][-1][0]}]
    else:
        depth = unit['depth']
        for n in range(0, depth + 1):
            for places in itertools.combinations(PLACES, n):
                dig.add((unit['config'], unit['point'], unit['var'], unit['src'], places))
                outcome, was_alias, viols = run_history(unit['config'], unit['point'], unit['var'], unit['src'], places)
                res['evaluations'] += 1
                res['states'] += 1
                res['traces'] += 1
                res['transitions'] += 8 + len(places)
                if was_alias:
                    res['nontrivial'] += 1
                core.bump(res['outcomes'], 'history:%s:%s' % (unit['point'], outcome))
                res['violations'].extend(viols[:3])
                res['max_depth'] = max(res['max_depth'], n)
        res['samples'] = [{'config': unit['config'], 'request point': unit['point'], 'variable': unit['var'], 'sector': unit['src'],
                           'embedded in': list(places)}]
    best = {}
    for v in res['violations']:
        k = v['key']
        if k not in best or len(str(v['case'])) < len(str(best[k]['case'])):
            best[k] = v
    res['violations'] = list(best.values())
    res['digest'] = dig.hex()
    return res


def replay(case):
    if case['kind'] == 'closure':
        r = topo.run(case['spec'], maxtime=0)
        if not r.text:
            return []
        return check_model(r.built.model, case)[:1]
    return run_history(case['config'], case['point'], case['var'], case['src'], case['places'])[2][:1]
