"""
C06 - sector ledgers reflect exactly the cash flows recorded on them.

History BFS on one bare Sector(has_F=True) inside a fresh Model: every sequence of AddCashFlow / income exclusion /
AddVariable calls up to the depth bound is replayed on fresh real objects and compared, after every call, with a
15-line ledger reference model (exact rationals, 3 prime valuations).  States reached by different histories are
merged only when the implementation state AND the reference state coincide.
"""
import itertools
from fractions import Fraction

from mc import core, exact

core.setup_repo_path()
from sfc_models.models import Model, Country  # noqa
from sfc_models.sector import Sector  # noqa

ID = 'C06'
LEVEL = 'model_checking'
RULE = ('states = (F terms, INC terms, definitions of a and b, exclusions in force, reference ledger); transitions = one real API call: '
        'AddCashFlow(term in 14 spellings incl. bracketed signs, products, quotient, number*name, empty and blank; eqn None|"q+1"|"-q*2+1"|"-(q-1)*2"; is_income T|F), '
        'AddCashFlowIncomeExclusion(a|b|a*b), AddVariable(a|b, rhs in {"", 0.0, 0., 0, z, 2*z, 0.5, -0.25}), an exclusion / income flows registered on a sector with the SAME short code in a second country; oracle after every transition: F == LAG_F + '
        'signed sum, INC == signed sum of income flows not excluded when registered, flow-variable definition per the rule; the emitted '
        'Model.FinalEquations row of F and INC for states up to depth 2; non-trivial = histories with a repeat, a cancellation, an exclusion '
        'or a pre-existing definition')
ASSUMPTIONS = [
    'an income exclusion is not retroactive (it governs later registrations only); the statement does not say otherwise and the only in-tree use registers exclusions in constructors',
    'a defining expression is only passed together with single-name flow terms',
]
BOUNDS = {'quick': {'depth': 3}, 'thorough': {'depth': 4}}

TERMS = ['a', '+a', '-a', 'b', '-b', 'a*b', '-(a*b)', '(-a)', '-(-a)', '2*a', 'a/b', '', ' - a ', '  ']
NAME_TERMS = {'a': 'a', '+a': 'a', '-a': 'a', 'b': 'b', '-b': 'b', '(-a)': 'a', '-(-a)': 'a', ' - a ': 'a'}
BARE = {'a': 'a', '+a': 'a', '-a': 'a', 'b': 'b', '-b': 'b', 'a*b': 'a*b', '-(a*b)': 'a*b', '(-a)': 'a', '-(-a)': 'a',
        '2*a': '2*a', 'a/b': 'a/b', ' - a ': 'a'}
PREDEFS = ['', '0.0', '0.', '0', 'z', '2*z', '0.5', '-0.25']      # (numeric constants below 1 are definitions, not placeholders)

VALS = [
    {'a': Fraction(3), 'b': Fraction(7), 'LAG_F': Fraction(11), 'q': Fraction(13), 'z': Fraction(17)},
    {'a': Fraction(-5, 2), 'b': Fraction(19, 3), 'LAG_F': Fraction(-23), 'q': Fraction(29), 'z': Fraction(-31)},
    {'a': Fraction(37), 'b': Fraction(-41, 7), 'LAG_F': Fraction(43, 5), 'q': Fraction(-47), 'z': Fraction(53)},
]


def ops():
    out = []
    for t in TERMS:
        for inc in (True, False):
            out.append(['flow', t, None, inc])
            if t in NAME_TERMS:
                out.append(['flow', t, 'q+1', inc])
        if t in ('a', '-b'):
            out.append(['flow', t, '-q*2+1', True])       # defining expressions that start with a sign
            out.append(['flow', t, '-(q-1)*2', False])
    for name in ('a', 'b', 'a*b'):
        out.append(['excl', name])
    # a sector with the same short code in a second country: what is registered for one must not touch the other
    out.append(['twin-excl', 'a'])
    out.append(['twin-flow', 'a', None, True])
    out.append(['twin-flow', '-b', None, True])
    for v in ('a', 'b'):
        for rhs in PREDEFS:
            out.append(['def', v, rhs])
    return out


OPS = ops()


def values(expr):
    e = expr.strip()
    if e == '':
        return (Fraction(0),) * 3
    return tuple(exact.eval_at(e, v) for v in VALS)


class Ref(object):
    """The boring reference ledger."""

    def __init__(self):
        self.F = values('LAG_F')
        self.INC = (Fraction(0),) * 3
        self.defs = {}          # var -> rhs text
        self.excl = set()
        self.twin = None        # ledger of the same-coded sector in the second country

    def apply(self, op):
        if op[0].startswith('twin'):
            if self.twin is None:
                self.twin = Ref()
            self.twin.apply([op[0][5:]] + list(op[1:]))
            return
        if op[0] == 'flow':
            t, eqn, inc = op[1], op[2], op[3]
            if t.strip() == '':
                return
            v = values(t)
            self.F = tuple(x + y for x, y in zip(self.F, v))
            if inc and BARE[t] not in self.excl:
                self.INC = tuple(x + y for x, y in zip(self.INC, v))
            if eqn is not None:
                var = NAME_TERMS[t]
                cur = self.defs.get(var)
                if cur is None or cur.strip() == '' or is_zero(cur):
                    self.defs[var] = eqn
        elif op[0] == 'excl':
            self.excl.add(op[1])
        else:
            self.defs[op[1]] = op[2]

    def key(self):
        return (self.F, self.INC, tuple(sorted(self.defs.items())), tuple(sorted(self.excl)), self.twin.key() if self.twin else None)


def is_zero(txt):
    try:
        return float(txt) == 0.0
    except ValueError:
        return False


def build(history):
    """Replay a history on fresh real objects. Returns (model, sector)."""
    m = Model()
    c = Country(m, 'CO')
    s = Sector(c, 'SEC', has_F=True)
    twin = None
    if any(op[0].startswith('twin') for op in history):
        twin = Sector(Country(m, 'C2'), 'SEC', has_F=True)
    for op in history:
        if op[0] == 'flow':
            s.AddCashFlow(op[1], eqn=op[2], is_income=op[3])
        elif op[0] == 'excl':
            m.AddCashFlowIncomeExclusion(s, op[1])
        elif op[0] == 'twin-excl':
            m.AddCashFlowIncomeExclusion(twin, op[1])
        elif op[0] == 'twin-flow':
            twin.AddCashFlow(op[1], eqn=op[2], is_income=op[3])
        else:
            s.AddVariable(op[1], 'pre-existing definition', op[2])
    s.Twin = twin
    return m, s


def impl_key(s):
    def tl(eq):
        return tuple((t.Term, t.Constant, t.IsBlob) for t in eq.TermList)
    defs = tuple((v, s.EquationBlock[v].RHS()) for v in ('a', 'b') if v in s.EquationBlock)
    tw = (tl(s.Twin.EquationBlock['F']), tl(s.Twin.EquationBlock['INC'])) if getattr(s, 'Twin', None) is not None else None
    return (tl(s.EquationBlock['F']), tl(s.EquationBlock['INC']), defs, tw)


def same_def(got, want):
    g = ''.join(got.split())
    w = ''.join(want.split())
    if g == w:
        return True
    if (g in ('', '0.0') and (w == '' or is_zero(w))):
        return True
    try:
        return values(got) == values(want)
    except Exception:
        return False


def check_state(history, final_rows):
    """Replays the history; oracle on the last state. Returns (violation|None, impl key, ref key)."""
    case = {'history': history}
    ref = Ref()
    for op in history:
        ref.apply(op)
    try:
        m, s = build(history)
    except Exception as e:
        return core.violation('call-raises:%s:%s' % (history[-1][0], type(e).__name__), 'history raised %r' % (e,), case), None, None
    for var, want in (('F', ref.F), ('INC', ref.INC)):
        rhs = s.EquationBlock[var].RHS()
        try:
            got = values(rhs)
        except Exception as e:
            return core.violation('ledger-not-evaluable', '%s = %r cannot be evaluated: %r' % (var, rhs, e), case), None, None
        if got != want:
            return core.violation(classify(var, history), '%s = %r evaluates to %s, ledger says %s' % (
                var, rhs, [str(x) for x in got], [str(x) for x in want]), case), None, None
    if ref.twin is not None:
        for var, want in (('F', ref.twin.F), ('INC', ref.twin.INC)):
            rhs = s.Twin.EquationBlock[var].RHS()
            try:
                got = values(rhs)
            except Exception as e:
                return core.violation('ledger-not-evaluable', 'twin %s = %r cannot be evaluated: %r' % (var, rhs, e), case), None, None
            if got != want:
                return core.violation('twin-sector:' + ('F-wrong' if var == 'F' else 'INC-wrong'), 'same-coded sector of the other country: %s = %r evaluates to %s, ledger says %s' % (
                    var, rhs, [str(x) for x in got], [str(x) for x in want]), case), None, None
    for var in ('a', 'b'):
        want = ref.defs.get(var)
        if want is None:
            if var in s.EquationBlock:
                return core.violation('variable-created-unexpectedly', '%s defined as %r' % (var, s.EquationBlock[var].RHS()), case), None, None
            continue
        if var not in s.EquationBlock:
            return core.violation('definition-missing', '%s should be defined as %r' % (var, want), case), None, None
        got = s.EquationBlock[var].RHS()
        if not same_def(got, want):
            return core.violation(classify_def(history, var, got, want), 'definition of %s is %r, expected %r' % (var, got, want), case), None, None
    if final_rows:
        m.MaxTime = 1
        try:
            m.main()
        except Exception:
            pass
        blk = exact.read_block(m.FinalEquations)
        rows = dict(blk.endo)
        pre = 'CO_SEC__' if ref.twin is not None else 'SEC__'
        for var, want in ((pre + 'F', ref.F), (pre + 'INC', ref.INC)):
            if var not in rows:
                return core.violation('final-row-missing', '%s missing from FinalEquations' % var, case), None, None
            vals = []
            for v in VALS:
                vv = dict(v)
                for n in list(v):
                    vv[pre + n] = v[n]
                vals.append(exact.eval_at(rows[var], vv))
            if tuple(vals) != want:
                return core.violation('final-equation-differs-from-ledger', '%s = %r evaluates to %s, ledger %s' % (
                    var, rows[var], [str(x) for x in vals], [str(x) for x in want]), case), None, None
    return None, impl_key(s), ref.key()


def classify(var, history):
    flows = [op for op in history if op[0] == 'flow' and op[1].strip()]
    bare = [BARE[op[1]] for op in flows]
    tag = 'F-wrong' if var == 'F' else 'INC-wrong'
    if any(op[0].startswith('twin') for op in history):
        return tag + ':with-same-coded-sector-elsewhere'
    if any(op[0] == 'excl' for op in history) and var == 'INC':
        return tag + ':with-exclusion'
    if len(set(bare)) < len(bare):
        return tag + ':repeated-flow'
    return tag


def classify_def(history, var, got, want):
    pre = [op for op in history if op[0] == 'def' and op[1] == var]
    if pre and is_zero(pre[-1][2]) and pre[-1][2] != '0.0':
        return 'definition-not-applied:zero-spelling'
    return 'definition-wrong'


def nontrivial(history):
    flows = [BARE[op[1]] for op in history if op[0] == 'flow' and op[1].strip()]
    return len(set(flows)) < len(flows) or any(op[0] in ('excl', 'def') or op[0].startswith('twin') for op in history)


def units(tier):
    return [{'first': i, 'depth': BOUNDS[tier]['depth']} for i in range(len(OPS))]


def run_unit(unit, tier):
    res = core.new_result()
    dig = core.Digest()
    depth = unit['depth']
    frontier = [[OPS[unit['first']]]]
    seen = set()
    for d in range(1, depth + 1):
        nxt = []
        for hist in frontier:
            dig.add(repr(hist))
            v, ik, rk = check_state(hist, final_rows=(d <= 2))
            res['evaluations'] += 1
            res['transitions'] += 1
            res['traces'] += 1
            if nontrivial(hist):
                res['nontrivial'] += 1
            if v:
                res['violations'].append(v)
                core.bump(res['outcomes'], 'violation')
                continue
            key = (ik, rk)
            if key in seen:
                core.bump(res['outcomes'], 'merged')
                continue
            seen.add(key)
            res['states'] += 1
            res['max_depth'] = d
            core.bump(res['outcomes'], 'depth%d' % d)
            if d < depth:
                for op in OPS:
                    nxt.append(hist + [op])
        frontier = nxt
    if frontier or True:
        res['samples'] = [{'history': [OPS[unit['first']]] + OPS[5:7]}]
    best = {}
    for v in res['violations']:
        k = v['key']
        if k not in best or len(v['case']['history']) < len(best[k]['case']['history']):
            best[k] = v
    res['violations'] = list(best.values())
    res['digest'] = dig.hex()
    return res


def replay(case):
    hist = [list(op) for op in case['history']]
    v, a, b = check_state(hist, final_rows=True)
    return [v] if v else []
