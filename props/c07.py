"""
C07 - cross-currency flows conserve value at the prevailing exchange rates.

Topology grammar, FX families (2 and 3 currency zones with an external sector, gifts, imports through a foreign
supplier, gold purchases, non-unit and time-varying exchange-rate paths); exact rational solution of the emitted
equations; plus the negative family (the same models without ExternalSector must be refused).
"""
import json
from fractions import Fraction

from mc import core, exact, topo

ID = 'C07'
LEVEL = 'model_checking'
RULE = ('state = (spec, period); all two-/three-zone specs within the deviation bound that contain at least one cross-currency '
        'gift, import supplier or gold government; oracles (exact): receiver credited amount*XR_sender/XR_receiver and sender '
        'debited the amount (term-level in F and INC), sum_c NET_c*XR_c + NET_NUMERAIRE == 0, NET_NUMERAIRE == 0 without gold, '
        'cross-rate variable == XR_a/XR_b, supplier in another currency credited at the cross rate, gold buyer debited the purchase and the gold market credited XR_buyer*purchase (GOLDPRICE == PRICE/XR); negative family: same spec '
        'without ExternalSector -> LogicError and empty TimeSeries. non-trivial = a used link whose two rates are non-unit and unequal')
ASSUMPTIONS = [
    'exchange-rate paths from {unit, 2, 4, time-varying 2,2,3,5}; gift amount 0.1*AfterTax; import rule MU*INC',
    'k=0 values taken from the library; periods 1..3 solved exactly',
]
BOUNDS = {
    'quick': {'two_zones': 2, 'three_zones': 1},
    'thorough': {'two_zones': 3, 'three_zones': 2},
}


def cross_links(spec):
    by = dict((c['code'], c) for c in spec['countries'])
    return [l for l in spec['links'] if by[l[1]]['cur'] != by[l[2]]['cur']]


def has_gold(spec):
    return any(c['gov'] in ('GOLD', 'GOLDCB') for c in spec['countries']) or bool(spec.get('manual_gold'))


def units(tier):
    out = []
    for fam, labels, spec in topo.all_specs(BOUNDS[tier]):
        if cross_links(spec) or has_gold(spec):
            out.append({'family': fam, 'labels': labels, 'spec': spec, 'neg': False})
            neg = json.loads(json.dumps(spec))
            neg['ext'] = None
            neg['xr'] = {}
            neg.pop('manual_gold', None)      # (a harness-level call on the external sector: not part of the negative family)
            neg.pop('late_region', None)
            if cross_links(neg) or has_gold(neg):
                out.append({'family': fam, 'labels': labels + ['no-external-sector'], 'spec': neg, 'neg': True})
    return out


def check_negative(spec, labels):
    case = {'spec': spec, 'labels': labels, 'neg': True}
    r = topo.run(spec)
    if r.error is None:
        return 'neg-accepted', [core.violation('cross-currency-without-external-accepted',
                                               'model with cross-currency flow/supplier/gold and no ExternalSector was accepted', case)]
    name = type(r.error).__name__
    if not isinstance(r.error, ValueError):   # LogicError is a ValueError
        return 'neg-' + name, [core.violation('cross-currency-without-external:wrong-exception',
                                              'raised %s: %s' % (name, str(r.error)[:200]), case)]
    produced = [v for v, x in (r.series or {}).items() if len(x) > 0] if r.built else []
    if produced:
        return 'neg-numbers', [core.violation('cross-currency-without-external:numbers-produced',
                                              'series exist after refusal: %s' % produced[:4], case)]
    return 'neg-refused:' + name, []


def check_spec(spec, labels):
    H = spec.get('horizon', 3)
    case = {'spec': spec, 'labels': labels, 'neg': False}
    r = topo.run(spec)
    if r.stage == 'build' or (r.error is not None and type(r.error).__name__ != 'ConvergenceError'):
        return 'error:%s:%s' % (r.stage, type(r.error).__name__), False, []
    try:
        em, sol = topo.solve_exact(r, H)
    except exact.NonAffine:
        return 'nonaffine-skipped', False, []
    except (exact.Indeterminate, exact.Inconsistent, exact.Unsupported) as e:
        return 'exact-%s' % type(e).__name__, False, []
    b = r.built
    m = b.model
    S = b.sectors
    by = dict((c['code'], c) for c in spec['countries'])
    xr = m.ExternalSector['XR']
    fx = m.ExternalSector['FX']
    curs = sorted(set(c['cur'] for c in spec['countries']))
    xrname = dict((c, xr.GetVariableName(c)) for c in curs)
    netname = dict((c, fx.GetVariableName('NET_' + c)) for c in curs)
    netnum = fx.GetVariableName('NET_NUMERAIRE')
    eqs = dict(em.endo)
    viols = []
    nontrivial = False

    def V(key, what):
        viols.append(core.violation(key, what, case))

    for k in range(1, H + 1):
        s = sol[k]
        tot = s[netnum]
        for c in curs:
            tot += s[netname[c]] * s[xrname[c]]
        if tot != 0:
            V('fx-net-not-zero', 'period %d: sum NET_c*XR_c + NET_NUMERAIRE = %s' % (k, tot))
        if not has_gold(spec) and s[netnum] != 0:
            V('numeraire-position-nonzero', 'period %d: NET_NUMERAIRE = %s with paired flows only' % (k, s[netnum]))
        # cross rate variables
        for name in s:
            pass
        for l in cross_links(spec):
            src_c, dst_c = by[l[1]], by[l[2]]
            xs, xd = s[xrname[src_c['cur']]], s[xrname[dst_c['cur']]]
            if xs != 1 and xd != 1 and xs != xd:
                nontrivial = True
            if l[0] == 'gift':
                src = S[(l[1], 'HH')]
                dst = S[(l[2], 'HH')]
                gname = src.GetVariableName('GIFT')
                amount = s[gname]
                gifts_from_src = [o for o in spec['links'] if o[0] == 'gift' and o[1] == l[1]]
                same_pair = [o for o in gifts_from_src if o[2] == l[2]]
                expect = {
                    (src, 'F'): -amount * len(gifts_from_src),
                    (src, 'INC'): -amount * len([o for o in gifts_from_src if o[3]]),
                    (dst, 'F'): amount * xs / xd * len(same_pair),
                    (dst, 'INC'): amount * xs / xd * len([o for o in same_pair if o[4]]),
                }
                for (sec, var), want in expect.items():
                    full = sec.GetVariableName(var)
                    got = sum(v for names, v in exact.term_values(eqs[full], s) if gname in names)
                    if got != want:
                        side = 'sender-debit-wrong' if sec is src else 'receiver-credit-wrong'
                        V(side + (':INC' if var == 'INC' else ''),
                          'period %d: %s books %s for %s, expected %s (amount %s, XR_sender %s, XR_receiver %s)' % (
                              k, full, got, gname, want, amount, xs, xd))
            elif l[0] == 'import':
                sup = S[(l[1], 'BUS')]
                mkt = S[(l[2], 'GOOD')]
                assigned = s[mkt.GetVariableName('SUP_' + sup.FullCode)]
                supvar = sup.GetVariableName(mkt.GetSupplierTerm(sup))
                want = assigned * xd / xs      # market currency is the sender here: amount * XR_market / XR_supplier
                if s[supvar] != want:
                    V('foreign-supplier-credit-wrong', 'period %d: %s = %s, expected assignment*XR_m/XR_s = %s' % (k, supvar, s[supvar], want))
                fname = sup.GetVariableName('F')
                got = sum(v for names, v in exact.term_values(eqs[fname], s)
                          if mkt.GetVariableName('SUP_' + sup.FullCode) in names or supvar in names)
                if got != want:
                    V('foreign-supplier-cashflow-wrong', 'period %d: %s receives %s for its exports, expected %s' % (k, fname, got, want))
        # gold purchases: the buyer pays `purchase` in its currency; the gold market is credited its numeraire value
        gold_buyers = [c for c in spec['countries'] if c['gov'] in ('GOLD', 'GOLDCB')]
        if gold_buyers or spec.get('manual_gold'):
            gold = m.ExternalSector['GOLD']
            netoz = gold.GetVariableName('NETOZ')
            price = gold.GetVariableName('PRICE')
            want_oz = 0
            gold_num = 0
            buyers = [(c, S[(c['code'], 'GOV' if c['gov'] == 'GOLD' else 'CB')], 'GOLDPURCHASES') for c in gold_buyers]
            if spec.get('manual_gold'):
                buyers.append((by[spec['manual_gold']], S[(spec['manual_gold'], 'GB')], 'GOLDBUY'))
            for c, gov, purvar in buyers:
                pur = s[gov.GetVariableName(purvar)]
                x = s[xrname[c['cur']]]
                want_oz += x * pur
                gp = gov.GetVariableName('GOLDPRICE')
                if s[gp] != s[price] / x:
                    V('gold-price-wrong', 'period %d: %s = %s, expected PRICE/XR = %s' % (k, gp, s[gp], s[price] / x))
                fterm = sum(v for names, v in exact.term_values(eqs[gov.GetVariableName('F')], s) if gov.GetVariableName(purvar) in names)
                if fterm != -pur:
                    V('gold-buyer-debit-wrong', 'period %d: buyer books %s for a purchase of %s' % (k, fterm, pur))
                if pur != 0 and x != 1:
                    nontrivial = True
            if s[netoz] != want_oz:
                V('gold-market-credit-wrong', 'period %d: %s = %s, expected sum XR_buyer*purchase = %s' % (k, netoz, s[netoz], want_oz))
            # the numeraire the FX intermediary hands over equals what the gold market receives, when gold is the only unpaired flow
            if not cross_links(spec) and s[netnum] != -want_oz:
                V('gold-numeraire-leg-wrong', 'period %d: NET_NUMERAIRE = %s, gold market receives %s' % (k, s[netnum], want_oz))
        # cross-rate variables that exist
        for a in curs:
            for bcur in curs:
                nm = xr.FullCode + '__%s_%s' % (a, bcur)
                if nm in s and s[nm] != s[xrname[a]] / s[xrname[bcur]]:
                    V('cross-rate-wrong', 'period %d: %s = %s, expected %s' % (k, nm, s[nm], s[xrname[a]] / s[xrname[bcur]]))
    return ('ok' if not viols else 'violation'), nontrivial, viols


def run_unit(unit, tier):
    res = core.new_result()
    dig = core.Digest()
    dig.add(topo.canon(unit['spec']))
    if unit['neg']:
        outcome, viols = check_negative(unit['spec'], unit['labels'])
        nontrivial = True
        res['states'] = 1
        res['transitions'] = 1
    else:
        outcome, nontrivial, viols = check_spec(unit['spec'], unit['labels'])
        res['states'] = 4
        res['transitions'] = 3
    res['evaluations'] = 1
    res['traces'] = 1
    res['nontrivial'] = 1 if nontrivial else 0
    core.bump(res['outcomes'], unit['family'] + ':' + outcome)
    seen = set()
    for v in viols:
        if v['key'] not in seen:
            seen.add(v['key'])
            res['violations'].append(v)
    res['samples'] = [{'family': unit['family'], 'deviations': unit['labels'], 'links': unit['spec']['links'],
                       'xr': unit['spec']['xr'], 'outcome': outcome}]
    res['max_depth'] = len(unit['labels'])
    res['digest'] = dig.hex()
    return res


def replay(case):
    if case.get('neg'):
        return check_negative(case['spec'], case.get('labels', []))[1][:1]
    return check_spec(case['spec'], case.get('labels', []))[2][:1]
