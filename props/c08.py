"""
C08 - results do not depend on the order in which sectors are declared.

For a list of structurally different economies, EVERY dependency-respecting permutation of the sector
declarations of a country (small countries) or every single-sector move, transposition and the reversal
(large countries) is built with the real constructors; the emitted equations of each order are solved
exactly and must give the same value for every variable and period as the canonical order
("the state reached through different histories is the same state").
"""
import itertools
import json

from mc import core, exact, topo

ID = 'C08'
LEVEL = 'model_checking'
RULE = ('state = construction history (declaration order of one country, the other countries canonical); transitions = '
        'declarations executed on the real constructors; oracle: exact rational solution (k=0 library values, k=1..3 solved) '
        'of Model.FinalEquations equal, variable by variable, to that of the canonical order; non-trivial = orders that differ '
        'from the canonical order in the relative position of at least one pair of interacting sectors (all non-identity orders); '
        'two-country economies additionally: declarations of the two countries interleaved (quick: one block inserted into the other at every position, '
        'strict alternation, every single declaration moved across; thorough: every merge of the two sequences and of their reversals) x both creation orders of the countries')
ASSUMPTIONS = [
    'dependencies respected: CentralBank after its Treasury, multi-output firm after the markets in its market_list; '
    'post-declaration calls (AddSupplier, GenerateAssetWeighting, SetExogenous, RegisterCashFlow, initial conditions) stay in a fixed tail',
    'all Country objects exist before the first sector is declared (sector constructors may name foreign markets); their creation order is varied in the two-country economies',
]
BOUNDS = {
    'quick': {'all_permutations_up_to_decls': 6, 'larger': 'all single moves + transpositions + reversal'},
    'thorough': {'all_permutations_up_to_decls': 7, 'larger': 'all single moves + transpositions + reversal + all orders of every 4-subset (others fixed)'},
}
CHUNK = 30


def _c(**kw):
    c = topo.base_country('CO')
    c.update(kw)
    return c


def structural_specs():
    one = lambda c: {'countries': [c], 'ext': None, 'links': [], 'xr': {}, 'horizon': 3}
    out = [
        ('sim', one(_c())),
        ('notax', one(_c(tax=None))),
        ('hhx', one(_c(hh='HHX'))),
        ('margin', one(_c(margin=0.1))),
        ('mo', one(_c(bus='MO', margin=0.1))),
        ('hhtax', one(_c(hhtax=0.1))),
        ('cap', one(_c(cap=True, margin=0.1))),
        ('cap+hhtax', one(_c(cap=True, margin=0.1, hhtax=0.1))),
        ('mon', one(_c(mon=True))),
        ('mon+cap', one(_c(mon=True, cap=True, margin=0.1))),
        ('dep', one(_c(mon=True, dep='rate', r='rstep'))),
        ('dep2+cash', one(_c(mon=True, dep='const', dep2=True, moncode='CASH'))),
        ('trecb', one(_c(gov='TRECB', tax=0.25))),
        ('trecb+cap+ic', one(_c(gov='TRECB', cap=True, margin=0.1, ic=True))),
        # non-default codes for markets and sectors (the constructors take the market names as arguments)
        ('renamed', one(_c(margin=0.1, names={'LAB': 'WORK', 'GOOD': 'STUFF', 'HH': 'WRK', 'BUS': 'FIRM', 'GOV': 'STATE', 'TF': 'LEVY'}))),
        ('renamed+cap+mon', one(_c(margin=0.1, cap=True, mon=True, names={'LAB': 'L', 'GOOD': 'GOODS', 'CAP': 'OWN'}))),
        # sector codes that END in a market's code (a look-up by code must not take them for the market)
        ('suffix-codes', one(_c(margin=0.1, names={'BUS': 'IMP_GOOD', 'HH': 'W_LAB', 'TF': 'X_GOV'}))),
    ]
    fed = {'countries': [topo.base_country('XA', 'CUR'), topo.base_country('RB', 'CUR', region=True)],
           'ext': None, 'links': [['import', 'RB', 'XA'], ['gift', 'XA', 'RB', True, True]], 'xr': {}, 'horizon': 3}
    out.append(('federated', fed))
    fed2 = json.loads(json.dumps(fed))
    fed2['countries'][0].update({'mon': True, 'cap': True, 'margin': 0.1})
    fed2['countries'][1].update({'bus': 'MO'})
    out.append(('federated+mon', fed2))
    two = {'countries': [topo.base_country('AA'), topo.base_country('BB')], 'ext': 'last',
           'links': [['gift', 'AA', 'BB', True, True], ['import', 'BB', 'AA']], 'xr': {'AA': 'x2', 'BB': 'xvar'}, 'horizon': 3}
    two['countries'][1].update({'gov': 'GOLD'})
    out.append(('two_zones+gold', two))
    return out


def orders_for(decls, tier):
    ids = [d[0] for d in decls]
    deps = dict(decls)
    n = len(ids)

    def ok(perm):
        pos = dict((x, i) for i, x in enumerate(perm))
        return all(pos[a] < pos[d] for d in ids for a in deps[d])
    limit = BOUNDS[tier]['all_permutations_up_to_decls']
    if n <= limit:
        return [list(p) for p in itertools.permutations(ids) if ok(p)], 'all'
    seen = set()
    out = []

    def add(p):
        t = tuple(p)
        if t not in seen and ok(t) and list(t) != ids:
            seen.add(t)
            out.append(list(t))
    for i in range(n):
        for j in range(n):
            if i != j:
                p = list(ids)
                x = p.pop(i)
                p.insert(j, x)
                add(p)
    for i in range(n):
        for j in range(i + 1, n):
            p = list(ids)
            p[i], p[j] = p[j], p[i]
            add(p)
    add(list(reversed(ids)))
    # reversal adjusted for dependencies: reverse, then bubble dependencies forward
    rev = list(reversed(ids))
    changed = True
    while changed:
        changed = False
        pos = dict((x, i) for i, x in enumerate(rev))
        for d in ids:
            for a in deps[d]:
                if pos[a] > pos[d]:
                    rev.remove(a)
                    rev.insert(rev.index(d), a)
                    changed = True
                    pos = dict((x, i) for i, x in enumerate(rev))
    add(rev)
    if tier == 'thorough':
        for sub in itertools.combinations(range(n), 4):
            for perm in itertools.permutations(sub):
                p = list(ids)
                for src, dst in zip(sub, perm):
                    p[dst] = ids[src]
                add(p)
    return out, 'moves'


def merges(a, b):
    """All interleavings of two sequences that keep each sequence's own order."""
    if not a:
        yield list(b)
        return
    if not b:
        yield list(a)
        return
    for rest in merges(a[1:], b):
        yield [a[0]] + rest
    for rest in merges(a, b[1:]):
        yield [b[0]] + rest


def dep_reverse(decls):
    ids = [d[0] for d in decls]
    deps = dict(decls)
    rev = list(reversed(ids))
    changed = True
    while changed:
        changed = False
        pos = dict((x, i) for i, x in enumerate(rev))
        for d in ids:
            for a in deps[d]:
                if pos[a] > pos[d]:
                    rev.remove(a)
                    rev.insert(rev.index(d), a)
                    changed = True
                    pos = dict((x, i) for i, x in enumerate(rev))
    return rev


def global_orders(spec, tier):
    """Two-country economies: the declarations of the two countries interleaved, and the countries created in either order."""
    ca, cb = spec['countries']
    A = [[ca['code'], d[0]] for d in topo.declarations(ca)]
    B = [[cb['code'], d[0]] for d in topo.declarations(cb)]
    Ar = [[ca['code'], d] for d in dep_reverse(topo.declarations(ca))]
    Br = [[cb['code'], d] for d in dep_reverse(topo.declarations(cb))]
    codes = [ca['code'], cb['code']]
    out = []
    if tier == 'thorough':
        for corder in (codes, codes[::-1]):
            for g in merges(A, B):
                out.append({'__countries__': corder, '__global__': g})
        for g in merges(Ar, Br):
            out.append({'__countries__': codes, '__global__': g})
    else:
        # quick: every merge in which one country's block is split at most once (a prefix of B, all of A placed anywhere...),
        # i.e. A inserted as one block at every position of B, B as one block at every position of A, strict alternation,
        # and every single declaration of one country moved into every position of the other country's block
        cand = []
        for i in range(len(B) + 1):
            cand.append(B[:i] + A + B[i:])
        for i in range(len(A) + 1):
            cand.append(A[:i] + B + A[i:])
        alt = []
        for i in range(max(len(A), len(B))):
            alt += A[i:i + 1] + B[i:i + 1]
        cand.append(alt)
        for X, Y in ((A, B), (B, A), (Ar, Br)):
            for xi in range(len(X)):
                rest = X[:xi] + X[xi + 1:]
                for j in range(len(Y) + 1):
                    g = rest + Y[:j] + [X[xi]] + Y[j:]
                    cand.append(g)
        seen = set()
        for corder in (codes, codes[::-1]):
            for g in cand:
                k = (tuple(corder), tuple(map(tuple, g)))
                if k not in seen and global_ok(spec, g):
                    seen.add(k)
                    out.append({'__countries__': corder, '__global__': g})
    return [o for o in out if global_ok(spec, o['__global__'])]


def global_ok(spec, g):
    pos = dict(((c, d), i) for i, (c, d) in enumerate(g))
    for c in spec['countries']:
        for d, deps in topo.declarations(c):
            for a in deps:
                if pos[(c['code'], a)] > pos[(c['code'], d)]:
                    return False
    return True


def units(tier):
    out = []
    for name, spec in structural_specs():
        for ci, c in enumerate(spec['countries']):
            decls = topo.declarations(c)
            orders, kind = orders_for(decls, tier)
            for i in range(0, len(orders), CHUNK):
                out.append({'name': name, 'spec': spec, 'country': c['code'], 'orders': orders[i:i + CHUNK], 'kind': kind})
        if len(spec['countries']) == 2:
            gl = global_orders(spec, tier)
            for i in range(0, len(gl), CHUNK):
                out.append({'name': name, 'spec': spec, 'country': '*', 'orders': gl[i:i + CHUNK], 'kind': 'interleaved'})
    return out


def solve(spec, order):
    r = topo.run(spec, order=order, maxtime=0)
    if r.stage == 'build' or r.error is not None:
        return None, 'error:%s:%s: %s' % (r.stage, type(r.error).__name__, str(r.error)[:150])
    try:
        em, sol = topo.solve_exact(r, spec.get('horizon', 3))
    except (exact.NonAffine, exact.Indeterminate, exact.Inconsistent, exact.Unsupported) as e:
        return None, 'exact-%s: %s' % (type(e).__name__, str(e)[:100])
    return sol, None


_CANON = {}


def canonical(spec):
    k = topo.canon(spec)
    if k not in _CANON:
        _CANON[k] = solve(spec, None)
    return _CANON[k]


def compare(spec, ccode, order):
    case = {'spec': spec, 'country': ccode, 'order': order}
    base, err = canonical(spec)
    if base is None:
        return 'canonical-' + err.split(':')[0], None
    sol, err = solve(spec, order if ccode == '*' else {ccode: order})
    if sol is None:
        return 'order-fails', core.violation(
            'order-dependent:' + classify(spec, ccode, order, None),
            'canonical order builds, order %s of %s fails: %s' % (order, ccode, err), case)
    for k in range(len(base)):
        if set(base[k]) != set(sol[k]):
            diff = sorted(set(base[k]) ^ set(sol[k]))[:5]
            return 'varset-differs', core.violation('order-dependent:' + classify(spec, ccode, order, diff),
                                                    'variable sets differ: %s' % diff, case)
        bad = [v for v in base[k] if base[k][v] != sol[k][v]]
        if bad:
            v = sorted(bad)[0]
            return 'solution-differs', core.violation(
                'order-dependent:' + classify(spec, ccode, order, bad),
                'order %s of %s: period %d %s = %s, canonical order gives %s (%d variables differ)' % (
                    order, ccode, k, v, sol[k][v], base[k][v], len(bad)), case)
    return 'same', None


def classify(spec, ccode, order, bad):
    """Failing class = the adjacent-in-canonical pair of declarations whose relative order is inverted and that is
    minimal for this order (first inverted pair in canonical numbering)."""
    if ccode == '*':
        canon = [x['code'] for x in spec['countries']]
        if list(order.get('__countries__') or canon) != canon:
            return 'countries-created-in-another-order'
        return 'countries-interleaved'
    c = [x for x in spec['countries'] if x['code'] == ccode][0]
    ids = [d[0] for d in topo.declarations(c)]
    pos = dict((x, i) for i, x in enumerate(order))
    inv = [(a, b) for i, a in enumerate(ids) for b in ids[i + 1:] if pos[a] > pos[b]]
    if len(inv) == 1:
        return '%s-before-%s' % (inv[0][1], inv[0][0])
    return 'several-inversions'


def run_unit(unit, tier):
    res = core.new_result()
    dig = core.Digest()
    spec = unit['spec']
    if unit['country'] == '*':
        canon_ids = None
    else:
        c = [x for x in spec['countries'] if x['code'] == unit['country']][0]
        canon_ids = [d[0] for d in topo.declarations(c)]
    for order in unit['orders']:
        dig.add((unit['name'], unit['country'], json.dumps(order, sort_keys=True)))
        outcome, v = compare(spec, unit['country'], order)
        res['evaluations'] += 1
        res['states'] += 1
        res['transitions'] += len(order['__global__']) if canon_ids is None else len(order)
        res['traces'] += 1
        if order != canon_ids:
            res['nontrivial'] += 1
        core.bump(res['outcomes'], unit['name'] + ':' + outcome)
        if v:
            res['violations'].append(v)
    res['max_depth'] = len(canon_ids) if canon_ids is not None else len(unit['orders'][0]['__global__'])
    res['samples'] = [{'economy': unit['name'], 'country': unit['country'], 'order': unit['orders'][-1], 'enumeration': unit['kind']}]
    res['digest'] = dig.hex()
    # report only the shortest explanation per key from this unit
    best = {}
    for v in res['violations']:
        if v['key'] not in best:
            best[v['key']] = v
    res['counters']['orders_violating'] = len(res['violations'])
    res['violations'] = list(best.values())
    return res


def replay(case):
    outcome, v = compare(case['spec'], case['country'], case['order'])
    return [v] if v else []
