"""
C09 - textbook models obey their difference equations for any parameters.

Full Cartesian parameter grids (no sampling) for SIM, SIMEX1 and PC built by the bundled builders (parameters set
through the public attributes the sectors re-read at generation, exogenous paths and initial stocks through the
public API) and for the hand-coded ModelSIMiterative; every point is solved by the library and compared, period by
period, with the book recursions evaluated independently in closed form over exact rationals.
"""
import itertools
from fractions import Fraction as Fr

from mc import core

core.setup_repo_path()
from sfc_models.gl_book.chapter3 import SIM, SIMEX1  # noqa
from sfc_models.gl_book.chapter4 import PC  # noqa
from sfc_models.gl_book.model_SIM_iterative import ModelSIMiterative  # noqa

ID = 'C09'
LEVEL = 'exploration'
RULE = ('state = (parameter point, period); grids: alpha1 x alpha2 x theta x G-path x initial wealth (SIM), x initial expected income (SIMEX1), '
        'x lambda0 x lambda1 x lambda2 x r-path x initial stocks {none, book, all-cash with zero bills} (PC), theta x alpha1 x alpha2 x G x H0 (iterative SIM), SIM and SIMEX1 embedded together in one Model through the builders\' model= argument; series Y, T, YD, C, H/V, '
        'bills, money for every period k >= 1; oracle: closed-form recursion over Fractions; two runs per point: solver tolerance 1e-12 (hold '
        '<= 1e-8 relative, violated >= 1e-6) and the default tolerance (hold <= 2e-4, violated >= 5e-3); non-trivial = converged points')
ASSUMPTIONS = [
    '"admissible" parameters = representable in the builders\' 4-decimal parameter format; 4-decimal members are in the grid on purpose',
    'the iteration cap is raised to 1e5 through the public attribute; a ConvergenceError that still occurs is counted as indeterminate, never as a violation',
    'PC: household-side series only (they do not depend on how the government-side initial stocks are spelled)',
]
BOUNDS = {
    'quick': {'horizon': 8, 'alpha1': [.5, .6, .6125], 'alpha2': [.1, .25, .4], 'theta': [.1, .2, .2375]},
    'thorough': {'horizon': 30, 'alpha1': [.5, .6, .6125, .9], 'alpha2': [.1, .25, .4], 'theta': [0., .1, .2, .2375]},
}

GPATHS = {
    'const20': lambda k: Fr(20),
    'zero-then-20': lambda k: Fr(0) if k == 0 else Fr(20),
    'step20-25': lambda k: Fr(20) if k < 3 else Fr(25),
    'alternating': lambda k: Fr(20) if k % 2 == 0 else Fr(30),
    'const0.8': lambda k: Fr(4, 5),
    'thirds': lambda k: Fr(61, 3) + Fr(k, 7),          # no finite decimal expansion: only used with the paths handed over as Python objects
}
OBJECT_ONLY = ('thirds', 'thirtieth')
RPATHS = {
    'const': lambda k: Fr(25, 1000),
    'step': lambda k: Fr(25, 1000) if k < 3 else Fr(35, 1000),
    'thirtieth': lambda k: Fr(1, 30) + Fr(k, 7000),
}


def path_text(fn, n, gform='exogenous'):
    if gform == 'list':            # AddExogenous documents that a list or tuple object is accepted as well as its text
        return [float(fn(k)) for k in range(n)]
    if gform == 'tuple':
        return tuple(float(fn(k)) for k in range(n))
    return '[' + ', '.join(repr(float(fn(k))) for k in range(n)) + ']'


def frac(x):
    return Fr('%0.4f' % x)


# ---------------------------------------------------------------------------------------------
# closed forms

def sim_closed(a1, a2, th, G, H0, n):
    out = []
    H = Fr(H0)
    for k in range(1, n + 1):
        g = G(k)
        Y = (g + a2 * H) / (1 - a1 * (1 - th))
        T = th * Y
        YD = Y - T
        C = a1 * YD + a2 * H
        H = H + YD - C
        out.append({'Y': Y, 'T': T, 'YD': YD, 'C': C, 'H': H})
    return out


def simex_closed(a1, a2, th, G, H0, YDe0, n):
    out = []
    H = Fr(H0)
    YDprev = Fr(YDe0)
    for k in range(1, n + 1):
        g = G(k)
        C = a1 * YDprev + a2 * H
        Y = C + g
        T = th * Y
        YD = Y - T
        H = H + YD - C
        out.append({'Y': Y, 'T': T, 'YD': YD, 'C': C, 'H': H})
        YDprev = YD
    return out


def pc_closed(a1, a2, th, l0, l1, l2, G, R, V0, B0, n):
    out = []
    V = Fr(V0)
    B = Fr(B0)
    for k in range(1, n + 1):
        g = G(k)
        I = R(k - 1) * B
        Y = (a1 * (1 - th) * I + a2 * V + g) / (1 - a1 * (1 - th))
        T = th * (Y + I)
        YD = Y + I - T
        C = a1 * YD + a2 * V
        V = V + YD - C
        B = V * (l0 + l1 * R(k)) - l2 * YD
        out.append({'Y': Y, 'T': T, 'YD': YD, 'C': C, 'H': V, 'B': B, 'M': V - B})
    return out


# ---------------------------------------------------------------------------------------------
# library runs

def run_sim(kind, a1, a2, th, gname, H0, YDe0, n, tol, gform='exogenous'):
    B = SIM if kind == 'SIM' else SIMEX1
    obj = B('C1', use_book_exogenous=(gform == 'override'))      # 'override': the book's path is declared first, the user's afterwards
    m = obj.build_model()
    c = m['C1']
    hh, gov, tf = c['HH'], c['GOV'], c['TF']
    hh.AlphaIncome = a1
    hh.AlphaFin = a2
    tf.TaxRate = th
    if gform == 'equation':
        gov.SetEquationRightHandSide('DEM_GOOD', repr(float(GPATHS[gname](0))))     # a constant written as an equation
    else:
        gov.SetExogenous('DEM_GOOD', path_text(GPATHS[gname], n + 2, gform))
    if H0:
        hh.AddInitialCondition('F', H0)
        gov.AddInitialCondition('F', -H0)
    if kind == 'SIMEX1' and YDe0:
        hh.AddInitialCondition('AfterTax', YDe0)
    m.MaxTime = n
    m.EquationSolver.MaxIterations = 100000
    if tol is not None:
        m.EquationSolver.ParameterErrorTolerance = tol
    m.main()
    g = m.GetTimeSeries
    return {'Y': g('GOOD__SUP_GOOD'), 'T': g('GOV__T'), 'YD': g('HH__AfterTax'), 'C': g('HH__DEM_GOOD'), 'H': g('HH__F')}


def run_pc(a1, a2, th, l0, l1, l2, gname, rname, stocks, n, tol, gform='exogenous'):
    obj = PC('C1', use_book_exogenous=(gform == 'override'))
    m = obj.build_model()
    c = m['C1']
    hh, tre, tf, dep = c['HH'], c['TRE'], c['TF'], c['DEP']
    hh.AlphaIncome = a1
    hh.AlphaFin = a2
    tf.TaxRate = th
    hh.SetEquationRightHandSide('L0', '%0.4f' % l0)
    hh.SetEquationRightHandSide('L1', '%0.4f' % l1)
    hh.SetEquationRightHandSide('L2', '%0.4f' % l2)
    if gform == 'equation':
        tre.SetEquationRightHandSide('DEM_GOOD', repr(float(GPATHS[gname](0))))
    else:
        tre.SetExogenous('DEM_GOOD', path_text(GPATHS[gname], n + 2, gform))
    dep.SetExogenous('r', path_text(RPATHS[rname], n + 2, gform))
    if stocks == 'custom':
        # the user's own stocks, stated AFTER whatever the builder declared (the last statement counts)
        hh.AddInitialCondition('F', 60.)
        hh.AddInitialCondition('DEM_DEP', 40.)
        hh.AddInitialCondition('AfterTax', 60.)
        tre.AddInitialCondition('F', -60.)
    elif stocks and gform != 'override':          # ('override': the book configuration has declared the book's stocks itself)
        hh.AddInitialCondition('F', 86.486)
        hh.AddInitialCondition('DEM_DEP', 64.865 if stocks != 'cash' else 0.0)
        hh.AddInitialCondition('AfterTax', 86.486)
        tre.AddInitialCondition('F', -86.486)
    m.MaxTime = n
    m.EquationSolver.MaxIterations = 100000
    if tol is not None:
        m.EquationSolver.ParameterErrorTolerance = tol
    m.main()
    g = m.GetTimeSeries
    return {'Y': g('GOOD__SUP_GOOD'), 'T': g('TRE__T'), 'YD': g('HH__AfterTax'), 'C': g('HH__DEM_GOOD'), 'H': g('HH__F'),
            'B': g('HH__DEM_DEP'), 'M': g('HH__DEM_MON')}


def run_pair(a1, a2, th, gname, n, tol):
    """Two bundled economies embedded in ONE Model through the builders' model= argument (different currencies, no flows
    between them): CA = SIM with the unit's parameters, US = SIMEX1 with other parameters."""
    from sfc_models.models import Model
    m = Model()
    SIM('CA', model=m, use_book_exogenous=False).build_model()
    SIMEX1('US', model=m, use_book_exogenous=False).build_model()
    ca, us = m['CA'], m['US']
    ca['HH'].AlphaIncome, ca['HH'].AlphaFin, ca['TF'].TaxRate = a1, a2, th
    us['HH'].AlphaIncome, us['HH'].AlphaFin, us['TF'].TaxRate = 0.7, 0.2, 0.25
    ca['GOV'].SetExogenous('DEM_GOOD', path_text(GPATHS[gname], n + 2))
    us['GOV'].SetExogenous('DEM_GOOD', path_text(GPATHS['alternating'], n + 2))
    us['HH'].AddInitialCondition('F', 40.)
    us['GOV'].AddInitialCondition('F', -40.)
    m.MaxTime = n
    m.EquationSolver.MaxIterations = 100000
    if tol is not None:
        m.EquationSolver.ParameterErrorTolerance = tol
    m.main()
    g = m.GetTimeSeries
    return ({'Y': g('CA_GOOD__SUP_GOOD'), 'T': g('CA_GOV__T'), 'YD': g('CA_HH__AfterTax'), 'C': g('CA_HH__DEM_GOOD'), 'H': g('CA_HH__F')},
            {'Y': g('US_GOOD__SUP_GOOD'), 'T': g('US_GOV__T'), 'YD': g('US_HH__AfterTax'), 'C': g('US_HH__DEM_GOOD'), 'H': g('US_HH__F')})


def check_pair(case):
    n = case['horizon']
    a1, a2, th = frac(case['a1']), frac(case['a2']), frac(case['th'])
    try:
        ca, us = run_pair(case['a1'], case['a2'], case['th'], case['G'], n, 1e-12)
    except Exception as e:
        if type(e).__name__ == 'ConvergenceError':
            return [], 1, False
        return [core.violation('model-fails:pair:' + type(e).__name__, 'embedded SIM+SIMEX1 raised %s: %s' % (type(e).__name__, str(e)[:150]), case)], 0, False
    out = []
    indet = 0
    v, i = judge(ca, sim_closed(a1, a2, th, GPATHS[case['G']], Fr(0), n), 1e-8, 1e-6, case, 'SIM-embedded')
    indet += i
    if v:
        out.append(v)
    v, i = judge(us, simex_closed(Fr('0.7'), Fr('0.2'), Fr('0.25'), GPATHS['alternating'], Fr(40), Fr(0), n), 1e-8, 1e-6, case, 'SIMEX1-embedded')
    indet += i
    if v:
        out.append(v)
    return out, indet, True


def judge(series, closed, lo, hi, case, model):
    """Returns (violation|None, indeterminate count)."""
    indet = 0
    for k, row in enumerate(closed, start=1):
        for name, want in row.items():
            got = series[name][k]
            w = float(want)
            d = abs(got - w) / max(1.0, abs(w))
            if d <= lo:
                continue
            if d >= hi:
                return core.violation('recursion-violated:%s:%s' % (model, name),
                                      '%s period %d: %s = %r, closed form %r (relative deviation %.3g)' % (model, k, name, got, w, d), case), indet
            indet += 1
    return None, indet


def check_point(case):
    model = case['model']
    n = case['horizon']
    a1, a2, th = frac(case['a1']), frac(case['a2']), frac(case['th'])
    out = []
    indet = 0
    converged = False
    for tol, lo, hi in ((1e-12, 1e-8, 1e-6), (None, 2e-4, 5e-3)):
        c2 = dict(case, tol=tol)
        try:
            if model in ('SIM', 'SIMEX1'):
                ser = run_sim(model, case['a1'], case['a2'], case['th'], case['G'], case['H0'], case.get('YDe0', 0), n, tol, case.get('gform', 'exogenous'))
                if model == 'SIM':
                    closed = sim_closed(a1, a2, th, GPATHS[case['G']], frac(case['H0']), n)
                else:
                    closed = simex_closed(a1, a2, th, GPATHS[case['G']], frac(case['H0']), frac(case.get('YDe0', 0)), n)
            else:
                ser = run_pc(case['a1'], case['a2'], case['th'], case['l0'], case['l1'], case['l2'], case['G'], case['r'], case['stocks'], n, tol, case.get('gform', 'exogenous'))
                V0, B0 = (Fr('86.486'), Fr('64.865') if case['stocks'] != 'cash' else Fr(0)) if case['stocks'] else (Fr(0), Fr(0))
                if case['stocks'] == 'custom':
                    V0, B0 = Fr(60), Fr(40)
                closed = pc_closed(a1, a2, th, frac(case['l0']), frac(case['l1']), frac(case['l2']), GPATHS[case['G']], RPATHS[case['r']], V0, B0, n)
        except Exception as e:
            if type(e).__name__ == 'ConvergenceError':
                indet += 1
                continue
            out.append(core.violation('model-fails:%s:%s' % (model, type(e).__name__), '%s raised %s: %s' % (model, type(e).__name__, str(e)[:150]), c2))
            continue
        converged = True
        v, i = judge(ser, closed, lo, hi, c2, model)
        indet += i
        if v:
            out.append(v)
    return out, indet, converged


def check_book(model):
    """The builders' own book configuration (use_book_exogenous=True) against the closed form fed with the book's inputs."""
    case = {'model': 'BOOK', 'builder': model, 'horizon': 14}
    n = 14
    try:
        if model == 'SIM':
            m = SIM('C1').build_model()
        elif model == 'SIMEX1':
            m = SIMEX1('C1').build_model()
        else:
            m = PC('C1').build_model()
        m.MaxTime = n
        m.EquationSolver.MaxIterations = 100000
        m.EquationSolver.ParameterErrorTolerance = 1e-12
        m.main()
    except Exception as e:
        return [core.violation('model-fails:book-%s:%s' % (model, type(e).__name__), '%s raised %r' % (model, e), case)], 0
    g = m.GetTimeSeries
    G_sim = lambda k: Fr(0) if k == 0 else Fr(20)
    if model == 'SIM':
        ser = {'Y': g('GOOD__SUP_GOOD'), 'T': g('GOV__T'), 'YD': g('HH__AfterTax'), 'C': g('HH__DEM_GOOD'), 'H': g('HH__F')}
        closed = sim_closed(Fr('0.6'), Fr('0.4'), Fr('0.2'), G_sim, Fr(0), n)
    elif model == 'SIMEX1':
        ser = {'Y': g('GOOD__SUP_GOOD'), 'T': g('GOV__T'), 'YD': g('HH__AfterTax'), 'C': g('HH__DEM_GOOD'), 'H': g('HH__F')}
        closed = simex_closed(Fr('0.6'), Fr('0.4'), Fr('0.2'), G_sim, Fr(0), Fr(16), n)
    else:
        ser = {'Y': g('GOOD__SUP_GOOD'), 'T': g('TRE__T'), 'YD': g('HH__AfterTax'), 'C': g('HH__DEM_GOOD'), 'H': g('HH__F'),
               'B': g('HH__DEM_DEP'), 'M': g('HH__DEM_MON')}
        R = lambda k: Fr('0.025') if k < 10 else Fr('0.035')
        closed = pc_closed(Fr('0.6'), Fr('0.4'), Fr('0.2'), Fr('0.635'), Fr(5), Fr('0.01'), lambda k: Fr(20), R, Fr('86.486'), Fr('64.865'), n)
    # the initial stocks the recursion consumes are the book's, exactly as declared
    init = {'SIM': {'H': 0.0}, 'SIMEX1': {'H': 0.0, 'YD': 16.0}, 'PC': {'H': 86.486, 'B': 64.865}}[model]
    for name, want in sorted(init.items()):
        if ser[name][0] != want:
            return [core.violation('book-initial-stock-wrong:%s:%s' % (model, name), 'book configuration of %s starts with %s(0) = %r, the book has %r' % (
                model, name, ser[name][0], want), case)], 0
    v, indet = judge(ser, closed, 1e-8, 1e-6, case, 'book-' + model)
    return ([v] if v else []), indet


def ref_sweeps(th, a1, a2, G, Hlag, cap=400):
    """Sweeps the simultaneous (Jacobi) update of the SIM period equations needs from a zero start until the summed change is <= .001."""
    x = dict(tax=0., YD=0., C=0., Y=0., dHs=0., dHh=0., dH=0., H=0.)
    for cnt in range(1, cap + 1):
        y = dict(tax=th * x['Y'], YD=x['Y'] - x['tax'], C=a1 * x['YD'] + a2 * Hlag, Y=x['C'] + G, dHs=G - x['tax'],
                 dHh=x['YD'] - x['C'], dH=x['dHs'], H=Hlag + x['dH'])
        err = sum(abs(x[k] - y[k]) for k in x)
        x = y
        if not err > .001:
            return cnt
    return None


def wealth_flows(o, closed, H0, n, tag, case, lo=0.05, hi=0.5):
    """dHs, dHh and dH of the hand-coded model are the period change of the closed-form wealth."""
    indet = 0
    prev = float(H0)
    for k, row in enumerate(closed, start=1):
        want = float(row['H']) - prev
        prev = float(row['H'])
        for name in ('dHs', 'dHh', 'dH'):
            xs = getattr(o, name)
            if len(xs) <= k:
                return [core.violation(tag + ':wrong-length', '%s has %d values after %d steps' % (name, len(xs), n), case)], indet
            d = abs(xs[k] - want)
            if d <= lo:
                continue
            if d >= hi:
                return [core.violation('recursion-violated:' + tag + ':' + name, 'period %d: %s = %r, change of the closed-form wealth %r' % (k, name, xs[k], want), case)], indet
            indet += 1
    return [], indet


def check_iterative_method2(case):
    """The alternative step method of the hand-coded model (RunMethod2: fixed-point iteration of the whole vector)."""
    o = ModelSIMiterative()
    o.theta, o.alpha1, o.alpha2 = case['th'], case['a1'], case['a2']
    n = case['horizon']
    G = GPATHS[case['G']]
    o.G = [float(G(k)) for k in range(n + 1)]
    o.H = [float(case['H0'])]
    done = 0
    try:
        for k in range(n):
            o.RunMethod2()
            done += 1
    except ValueError as e:
        if 'No convergence' in str(e):
            # the hand-coded whole-vector iteration gave up within its own cap of 100 sweeps: no verdict, unless the
            # documented scheme (simultaneous update from a zero start, stop at a summed change of .001) needs at most 60
            need = ref_sweeps(case['th'], case['a1'], case['a2'], o.G[o.T], o.H[o.T - 1])
            if need is not None and need <= 60:
                return [core.violation('iterative-sim-method2-gives-up', 'RunMethod2 raised %r in step %d although the simultaneous iteration settles in %d sweeps' % (
                    e, done + 1, need), case)], 0
            return [], -1
        return [core.violation('iterative-sim-method2-raises:ValueError', 'RunMethod2 raised %r' % (e,), case)], 0
    except Exception as e:
        return [core.violation('iterative-sim-method2-raises:' + type(e).__name__, 'RunMethod2 raised %r' % (e,), case)], 0
    closed = sim_closed(Fr(repr(case['a1'])), Fr(repr(case['a2'])), Fr(repr(case['th'])), G, Fr(repr(float(case['H0']))), n)
    ser = {'Y': o.Y, 'T': o.tax, 'YD': o.YD, 'C': o.C, 'H': o.H}
    indet = 0
    for k, row in enumerate(closed, start=1):
        for name, want in row.items():
            if len(ser[name]) <= k:
                return [core.violation('iterative-sim-method2:wrong-length', '%s has %d values after %d steps' % (name, len(ser[name]), n), case)], indet
            d = abs(ser[name][k] - float(want))
            if d <= 0.05:
                continue
            if d >= 0.5:
                return [core.violation('recursion-violated:iterative-SIM-method2:' + name, 'period %d: %s = %r, closed form %r' % (k, name, ser[name][k], float(want)), case)], indet
            indet += 1
    v, i2 = wealth_flows(o, closed, case['H0'], n, 'iterative-SIM-method2', case)
    return v, indet + i2


def check_iterative(case):
    o = ModelSIMiterative()
    o.theta, o.alpha1, o.alpha2 = case['th'], case['a1'], case['a2']
    n = case['horizon']
    G = GPATHS[case['G']]
    o.G = [float(G(k)) for k in range(n + 1)]
    o.H = [float(case['H0'])]
    o.main()
    closed = sim_closed(Fr(repr(case['a1'])), Fr(repr(case['a2'])), Fr(repr(case['th'])), G, Fr(repr(float(case['H0']))), n)
    ser = {'Y': o.Y, 'T': o.tax, 'YD': o.YD, 'C': o.C, 'H': o.H}
    for name in ser:
        if len(ser[name]) != n + 1:
            return [core.violation('iterative-sim:wrong-length', '%s has %d values, expected %d' % (name, len(ser[name]), n + 1), case)], 0
    indet = 0
    for k, row in enumerate(closed, start=1):
        for name, want in row.items():
            d = abs(ser[name][k] - float(want))
            if d <= 0.05:
                continue
            if d >= 0.5:
                return [core.violation('recursion-violated:iterative-SIM:' + name, 'period %d: %s = %r, closed form %r' % (k, name, ser[name][k], float(want)), case)], indet
            indet += 1
    v, i2 = wealth_flows(o, closed, case['H0'], n, 'iterative-SIM', case)
    return v, indet + i2


def units(tier):
    b = BOUNDS[tier]
    out = []
    n = b['horizon']
    for a1, a2, th in itertools.product(b['alpha1'], b['alpha2'], b['theta']):
        out.append({'family': 'SIM', 'a1': a1, 'a2': a2, 'th': th, 'horizon': n})
        out.append({'family': 'SIMEX1', 'a1': a1, 'a2': a2, 'th': th, 'horizon': n})
    for a1, th in itertools.product(b['alpha1'][1:3], b['theta'][-2:]):
        for l0, l1 in itertools.product([.635, .5], [5., 0.]):
            out.append({'family': 'PC', 'a1': a1, 'a2': .4, 'th': th, 'l0': l0, 'l1': l1, 'horizon': n})
    out.append({'family': 'ITER', 'horizon': n})
    return out


def run_unit(unit, tier):
    res = core.new_result()
    dig = core.Digest()
    fam = unit['family']
    cases = []
    if fam in ('SIM', 'SIMEX1'):
        for G, H0 in itertools.product(sorted(g for g in GPATHS if g != 'const0.8' and g not in OBJECT_ONLY), (0, 80)):
            for y0 in ((0, 16) if fam == 'SIMEX1' else (0,)):
                cases.append({'model': fam, 'a1': unit['a1'], 'a2': unit['a2'], 'th': unit['th'], 'G': G, 'H0': H0, 'YDe0': y0,
                              'horizon': unit['horizon']})
        # other ways of giving the spending path: a constant written as an equation; the user's path declared after the book's
        for G in ('const0.8', 'const20'):
            cases.append({'model': fam, 'a1': unit['a1'], 'a2': unit['a2'], 'th': unit['th'], 'G': G, 'H0': 80, 'YDe0': 0,
                          'horizon': unit['horizon'], 'gform': 'equation'})
        cases.append({'model': fam, 'a1': unit['a1'], 'a2': unit['a2'], 'th': unit['th'], 'G': 'alternating', 'H0': 0,
                      'YDe0': 16 if fam == 'SIMEX1' else 0, 'horizon': unit['horizon'], 'gform': 'override'})
        # the path handed over as a Python list / tuple of floats without a short decimal form (seventh wave)
        for gform in ('list', 'tuple'):
            cases.append({'model': fam, 'a1': unit['a1'], 'a2': unit['a2'], 'th': unit['th'], 'G': 'thirds', 'H0': 80 if gform == 'list' else 0,
                          'YDe0': 0, 'horizon': unit['horizon'], 'gform': gform})
        if fam == 'SIMEX1':
            # the user's own initial expectation and wealth stated after the book's
            cases.append({'model': fam, 'a1': unit['a1'], 'a2': unit['a2'], 'th': unit['th'], 'G': 'step20-25', 'H0': 80,
                          'YDe0': 10, 'horizon': unit['horizon'], 'gform': 'override'})
    elif fam == 'PC':
        for l2, G, r, stocks in itertools.product([.01, 0.], ['const20', 'step20-25'], sorted(r for r in RPATHS if r not in OBJECT_ONLY), (False, True, 'cash')):
            cases.append({'model': 'PC', 'a1': unit['a1'], 'a2': unit['a2'], 'th': unit['th'], 'l0': unit['l0'], 'l1': unit['l1'], 'l2': l2,
                          'G': G, 'r': r, 'stocks': stocks, 'horizon': unit['horizon']})
        base = {'model': 'PC', 'a1': unit['a1'], 'a2': unit['a2'], 'th': unit['th'], 'l0': unit['l0'], 'l1': unit['l1'], 'l2': .01, 'horizon': unit['horizon']}
        cases.append(dict(base, G='const0.8', r='step', stocks=True, gform='equation'))
        cases.append(dict(base, G='step20-25', r='step', stocks=True, gform='override'))
        cases.append(dict(base, G='const20', r='const', stocks='custom', gform='override'))
        cases.append(dict(base, G='const20', r='step', stocks='custom'))
        cases.append(dict(base, G='thirds', r='thirtieth', stocks=True, gform='list'))
        cases.append(dict(base, G='const20', r='thirtieth', stocks=False, gform='tuple'))
    else:
        b = BOUNDS[tier]
        for a1, a2, th, G, H0 in itertools.product(b['alpha1'], b['alpha2'], b['theta'], sorted(g for g in GPATHS if g not in OBJECT_ONLY), (0, 80)):
            case = {'model': 'ITER', 'a1': a1, 'a2': a2, 'th': th, 'G': G, 'H0': H0, 'horizon': unit['horizon']}
            dig.add(sorted(case.items()))
            viols, indet = check_iterative(case)
            if a1 * (1 - th) <= 0.6:      # the whole-vector iteration of RunMethod2 is capped at 100 sweeps
                v2, i2 = check_iterative_method2(dict(case, method='RunMethod2'))
                viols = viols + v2
                if i2 < 0:
                    core.bump(res['counters'], 'RunMethod2_gave_up_within_its_own_cap')
                else:
                    indet += i2
            res['evaluations'] += 1
            res['nontrivial'] += 1
            res['indeterminate'] += indet
            core.bump(res['outcomes'], 'ITER:' + ('ok' if not viols else 'violation'))
            res['violations'].extend(viols)
        for model in ('SIM', 'SIMEX1', 'PC'):
            dig.add(('book', model))
            viols, indet = check_book(model)
            res['evaluations'] += 1
            res['nontrivial'] += 1
            res['indeterminate'] += indet
            core.bump(res['outcomes'], 'BOOK-%s:%s' % (model, 'ok' if not viols else 'violation'))
            res['violations'].extend(viols)
        res['samples'] = [{'model': 'ModelSIMiterative', 'grid': 'alpha1 x alpha2 x theta x G x H0'}]
    if fam == 'SIM':
        for G in (('step20-25',) if tier == 'quick' else ('const20', 'step20-25', 'alternating')):
            case = {'model': 'PAIR', 'a1': unit['a1'], 'a2': unit['a2'], 'th': unit['th'], 'G': G, 'horizon': unit['horizon']}
            dig.add(sorted(case.items()))
            viols, indet, conv = check_pair(case)
            res['evaluations'] += 1
            if conv:
                res['nontrivial'] += 1
            res['indeterminate'] += indet
            core.bump(res['outcomes'], 'PAIR:' + ('ok' if not viols else 'violation'))
            res['violations'].extend(viols)
    for case in cases:
        dig.add(sorted(case.items()))
        viols, indet, conv = check_point(case)
        res['evaluations'] += 1
        if conv:
            res['nontrivial'] += 1
        res['indeterminate'] += indet
        core.bump(res['outcomes'], '%s:%s' % (fam, 'ok' if not viols else 'violation'))
        res['violations'].extend(viols)
    if cases:
        res['samples'] = [cases[-1]]
    best = {}
    for v in res['violations']:
        best.setdefault(v['key'], v)
    res['violations'] = list(best.values())
    res['digest'] = dig.hex()
    return res


def replay(case):
    if case['model'] == 'BOOK':
        return check_book(case['builder'])[0][:1]
    if case['model'] == 'ITER' and case.get('method') == 'RunMethod2':
        return check_iterative_method2(case)[0][:1]
    if case['model'] == 'PAIR':
        return check_pair(case)[0][:1]
    if case['model'] == 'ITER':
        return check_iterative(case)[0][:1]
    c = dict(case)
    c.pop('tol', None)
    return check_point(c)[0][:1]
