"""
C10 - exogenous paths, initial conditions and horizon are honoured verbatim.

Feature product over one rich block: exogenous specification form x supplied length x initial condition
(position x value) x horizon source x user-defined time variable x reduction; plus the same inputs pushed
through Model (AddExogenous with str / list / tuple objects, AddInitialCondition, Model.MaxTime).
All comparisons are exact (==).
"""
import itertools
import math

from mc import core
from mc.blocks import Block

core.setup_repo_path()
from sfc_models.equation_solver import EquationSolver  # noqa
from sfc_models.models import Model, Country  # noqa
from sfc_models.sector import Sector  # noqa

ID = 'C10'
LEVEL = 'exploration'
RULE = ('one block with a simultaneous pair, a referenced constant, a non-constant decorative, a constant decorative, a decorative of the '
        'exogenous input, a lag and a decorative of the lag; x exogenous form {list literal, [a]*n+[b]*m, tuple, float scalar, int '
        'scalar, unevaluable, syntax error, expression naming a model variable or an earlier exogenous variable} x supplied length {H, H+1, H+4} x initial condition on each of the 8 variable kinds x value '
        '{5., -2., sqrt(4.), unevaluable} x horizon {MaxTime line 0/1/3, solver.MaxTime set before parsing} x time variable {default, '
        'endogenous user t, exogenous user t} x reduction on/off; one solver object re-used for two blocks with different horizons; Model path: AddExogenous(str|list|tuple), AddInitialCondition, Model.MaxTime; '
        'oracle: lengths, k axis, exogenous == supplied prefix, k=0 == initial condition, lag identity, t == k, or rejection with ValueError and no '
        'period produced; non-trivial = cases with an initial condition or a non-default form')
ASSUMPTIONS = [
    'an int scalar exogenous value may be rejected or broadcast (the statement only fixes the float scalar)',
    'rejection = any exception raised by ParseString/SolveEquation/main (the statement says "an error") and no non-exogenous series longer than 1',
]
BOUNDS = {'quick': {'horizons': [0, 1, 3]}, 'thorough': {'horizons': [0, 1, 2, 3, 5]}}

ICVARS = ['none', 'x', 'm', 'u', 'p', 'q', 'LAG_x', 'z']
ICVALS = [('5.', 5.0), ('-2.', -2.0), ('sqrt(4.)', 2.0), ('zork', None)]
TVARS = ['default', 'endo', 'exo']


def exo_forms(H):
    out = []
    for extra, tag in ((-1, 'short'), (0, 'exact'), (3, 'long')):
        n = H + 1 + extra
        vals = [float(i + 1) for i in range(n)]
        out.append(('list-' + tag, '[' + ', '.join(repr(v) for v in vals) + ']', vals))
        a = n // 2
        vm = [1.0] * a + [3.0] * (n - a)
        out.append(('mult-' + tag, '[1.,]*%d + [3.]*%d' % (a, n - a), vm))
        out.append(('tuple-' + tag, '(' + ''.join(repr(v) + ', ' for v in vals) + ')', vals))
    # the specification handed over as a Python object (list / tuple / float) in Parser.Exogenous, the way the solver itself stores the k axis
    for extra, tag in ((0, 'exact'), (3, 'long')):
        vals = [float(2 * i + 1) for i in range(H + 1 + extra)]
        out.append(('obj-list-' + tag, list(vals), vals))
        out.append(('obj-tuple-' + tag, tuple(vals), vals))
    out.append(('obj-float', 2.5, 'scalar'))
    out.append(('float-scalar', '2.5', 'scalar'))
    out.append(('int-scalar', '3', 'int'))
    out.append(('unevaluable', 'foo(3)', None))
    out.append(('ref-variable-with-ic', '[x]*%d' % (H + 1), None))       # names a model variable: cannot be evaluated
    out.append(('ref-earlier-exogenous', '[1.]*%d' % (H + 1), 'REF'))     # a second exogenous line "gref = g" follows
    out.append(('syntax-error', '[1., 2.', None))
    return out


def make_text(H, hsource, exo_rhs, icvar, icval, tvar, ref_exo=False):
    eqs = [('x', '.5*y + g'), ('y', '.5*x + m'), ('m', '2.5'), ('u', '2*x + 1'), ('p', '2.*3.'), ('q', 'g/2.'),
           ('z', 'LAG_x + 1'), ('s', '2*x'), ('s1', 'x + 1 + 0*LAG_s1'), ('stock', 'y + 1 + 0*LAG_stock')]
    # lag sources whose names end in the characters of the lag spelling, next to a variable with the shortened name
    lags = [('LAG_x', 'x'), ('LAG_s1', 's1'), ('LAG_stock', 'stock')]
    ics = {}
    exos = [('g', exo_rhs)]
    if ref_exo:
        exos.append(('gref', 'g'))
    if tvar == 'endo':
        eqs.append(('t', 'LAG_t + 1.0'))
        lags.append(('LAG_t', 't'))
        ics['t'] = '2000.'
    elif tvar == 'exo':
        exos.append(('t', '[' + ', '.join(repr(10.0 + i) for i in range(H + 3)) + ']'))
    if icvar != 'none':
        ics[icvar] = icval
    maxtime = H if hsource == 'line' else (None if hsource == 'solver-only' else H + 2)
    return Block(eqs, lags=lags, ics=ics, exos=exos, maxtime=maxtime, tol='1e-8')


def check_series(ts, H, exo_expect, icvar, icexp, tvar, case, getter=None):
    """ts: mapping name -> list. Returns list of violations."""
    viols = []

    def V(key, what):
        viols.append(core.violation(key, what, case))
    names = ['x', 'y', 'm', 'u', 'p', 'q', 'z', 'LAG_x', 'g', 'k', 't']
    for n in names:
        if n not in ts:
            V('variable-missing:' + n, '%s missing from the results' % n)
            return viols
        if len(ts[n]) != H + 1:
            V('wrong-length', '%s has %d values, expected horizon+1 = %d' % (n, len(ts[n]), H + 1))
            return viols
    if list(ts['k']) != [float(i) for i in range(H + 1)]:
        V('k-axis-wrong', 'k = %r' % (ts['k'],))
    if exo_expect == 'scalar':
        want = [2.5] * (H + 1)
    elif exo_expect == 'int':
        want = [3] * (H + 1)
    else:
        want = exo_expect[:H + 1]
    if list(ts['g']) != want:
        V('exogenous-not-verbatim', 'g = %r, supplied prefix %r' % (ts['g'], want))
    if icvar != 'none' and ts[icvar][0] != icexp:
        V('initial-condition-not-honoured:' + kind_of(icvar), '%s[0] = %r, stated initial condition %r' % (icvar, ts[icvar][0], icexp))
    for lag, src in (('LAG_x', 'x'), ('LAG_s1', 's1'), ('LAG_stock', 'stock')):
        if lag not in ts or src not in ts:
            if lag == 'LAG_x' or getter is None:
                V('variable-missing:' + lag, '%s or %s missing from the results' % (lag, src))
            continue
        for k in range(1, H + 1):
            if ts[lag][k] != ts[src][k - 1]:
                V('lag-identity-broken', '%s[%d] = %r, %s[%d] = %r' % (lag, k, ts[lag][k], src, k - 1, ts[src][k - 1]))
                break
    if tvar == 'default':
        if list(ts['t']) != [float(i) for i in range(H + 1)]:
            V('time-axis-not-k', 't = %r' % (ts['t'],))
    elif tvar == 'endo':
        if list(ts['t']) != [2000.0 + i for i in range(H + 1)]:
            V('user-time-not-honoured', 't = %r' % (ts['t'],))
    else:
        if list(ts['t']) != [10.0 + i for i in range(H + 1)]:
            V('user-time-not-honoured', 't = %r' % (ts['t'],))
    return viols


def kind_of(v):
    return {'x': 'simultaneous', 'm': 'constant', 'u': 'decorative', 'p': 'constant-decorative', 'q': 'decorative-of-exogenous',
            'LAG_x': 'lagged', 'z': 'decorative-of-lag'}.get(v, v)


def run_solver_case(H, hsource, form, icvar, icv, tvar, red):
    tag, exo_rhs, exo_expect = form
    icval, icexp = icv
    case = {'path': 'solver', 'H': H, 'hsource': hsource, 'form': tag, 'icvar': icvar, 'icval': icval, 'tvar': tvar, 'reduction': red}
    ref_exo = exo_expect == 'REF'
    as_object = tag.startswith('obj-')
    blk = make_text(H, hsource, '[0.]*%d' % (H + 9) if as_object else exo_rhs, icvar, icval, tvar, ref_exo)
    if ref_exo:
        exo_expect = None
    must_reject = (exo_expect is None) or (isinstance(exo_expect, list) and len(exo_expect) < H + 1) or \
        (icvar != 'none' and icexp is None)
    s = EquationSolver(run_equation_reduction=red)
    if hsource != 'line':
        s.MaxTime = H
    err = None
    try:
        s.ParseString(blk.text())
        if as_object:
            s.Parser.Exogenous = [(v, (exo_rhs if v == 'g' else e)) for v, e in s.Parser.Exogenous]
        s.SolveEquation()
    except Exception as e:
        err = e
    if err is not None:
        if must_reject or exo_expect == 'int':
            long_ = [n for n, x in s.TimeSeries.items() if len(x) > 1 and n not in ('g', 'k', 't')]
            if long_ and H > 0:
                return 'rejected-but-periods-produced', [core.violation('rejected-but-periods-produced', 'series after rejection: %s' % long_[:4], case)]
            return 'rejected', []
        return 'unexpected-error', [core.violation('valid-input-rejected:' + type(err).__name__,
                                                   '%s: %s' % (type(err).__name__, str(err)[:160]), case)]
    if must_reject:
        what = 'short exogenous series' if isinstance(exo_expect, list) else ('unevaluable exogenous' if exo_expect is None else 'unevaluable initial condition')
        return 'accepted-invalid', [core.violation('invalid-input-accepted:' + what.replace(' ', '-'), '%s accepted' % what, case)]
    viols = check_series(s.TimeSeries, H, exo_expect, icvar, icexp, tvar, case)
    return ('ok' if not viols else 'violation'), viols


def run_model_case(H, form_kind, n_extra, ickind, tvar_unused=None, hsrc='model'):
    """Model path: one sector; exogenous given as str / list object / tuple object / float.
    hsrc: the horizon comes from Model.MaxTime, or is set on the model's solver directly (Model.MaxTime is then smaller)."""
    case = {'path': 'model', 'H': H, 'form': form_kind, 'extra': n_extra, 'ic': ickind}
    if hsrc != 'model':
        case['hsrc'] = hsrc
    n = H + 1 + n_extra
    vals = [float(i + 1) for i in range(n)]
    value = {'str': '[' + ', '.join(repr(v) for v in vals) + ']', 'list': list(vals), 'tuple': tuple(vals)}[form_kind]
    m = Model()
    c = Country(m, 'CO')
    a = Sector(c, 'A')
    a.AddVariable('g', 'exogenous input', '0.')
    a.AddVariable('x', 'state', '.5*y + g')
    a.AddVariable('y', 'state 2', '.5*x + 2.5')
    a.AddVariable('u', 'decorative', '2*x + 1')
    a.AddVariable('LAG_x', 'lag', 'x(k-1)')
    if hsrc == 'respecified':
        # a default path is declared first (the way a model-building routine would), the user's path afterwards: the last one counts
        a.SetExogenous('g', '[20.,]*%d' % (H + 5))
    if form_kind == 'str':
        a.SetExogenous('g', value)
    else:
        m.AddExogenous('A', 'g', value)
    icexp = None
    if ickind == 'sector':
        a.AddInitialCondition('x', 5.)
        icexp = ('A__x', 5.0)
    elif ickind == 'model':
        m.AddInitialCondition('A', 'u', -2)
        icexp = ('A__u', -2.0)
    elif ickind == 'lag':
        m.AddInitialCondition('A', 'LAG_x', '7.5')
        icexp = ('A__LAG_x', 7.5)
    elif ickind == 'precise':
        a.AddInitialCondition('x', 1234.56789)
        icexp = ('A__x', 1234.56789)
    elif ickind == 'third':
        m.AddInitialCondition('A', 'u', 1. / 3.)
        icexp = ('A__u', 1. / 3.)
    elif ickind == 'big':
        m.AddInitialCondition('A', 'LAG_x', 1e9 + 7)
        icexp = ('A__LAG_x', 1e9 + 7)
    m.MaxTime = H
    if hsrc == 'solver':
        m.MaxTime = max(0, H - 2)
        m.EquationSolver.MaxTime = H
    must_reject = n < H + 1
    err = None
    try:
        m.main()
    except Exception as e:
        err = e
    if err is not None:
        if must_reject:
            return 'rejected', []
        return 'unexpected-error', [core.violation('model:valid-input-rejected:' + type(err).__name__, '%s: %s' % (
            type(err).__name__, str(err)[:160]), case)]
    if must_reject:
        return 'accepted-invalid', [core.violation('model:short-exogenous-accepted', 'series of %d values accepted for horizon %d' % (n, H), case)]
    viols = []
    for nme in ('A__x', 'A__y', 'A__u', 'A__LAG_x', 'A__g', 'A__F', 'k', 't'):
        ser = m.GetTimeSeries(nme)
        if len(ser) != H + 1:
            viols.append(core.violation('model:wrong-length', '%s has %d values, horizon+1 = %d' % (nme, len(ser), H + 1), case))
            return 'violation', viols
    if list(m.GetTimeSeries('A__g')) != vals[:H + 1]:
        viols.append(core.violation('model:exogenous-not-verbatim', 'A__g = %r supplied %r' % (m.GetTimeSeries('A__g'), vals[:H + 1]), case))
    if icexp and m.GetTimeSeries(icexp[0])[0] != icexp[1]:
        viols.append(core.violation('model:initial-condition-not-honoured', '%s[0] = %r, stated %r' % (icexp[0], m.GetTimeSeries(icexp[0])[0], icexp[1]), case))
    lx, x = m.GetTimeSeries('A__LAG_x'), m.GetTimeSeries('A__x')
    if any(lx[k] != x[k - 1] for k in range(1, H + 1)):
        viols.append(core.violation('model:lag-identity-broken', 'LAG_x %r x %r' % (lx, x), case))
    if list(m.GetTimeSeries('t')) != [float(i) for i in range(H + 1)]:
        viols.append(core.violation('model:time-axis-not-k', 't = %r' % (m.GetTimeSeries('t'),), case))
    return ('ok' if not viols else 'violation'), viols


def run_reuse_case(H1, H2, red, tvar):
    """One solver object parses and solves a block with horizon H1, then another block with horizon H2."""
    case = {'path': 'reuse', 'H1': H1, 'H2': H2, 'reduction': red, 'tvar': tvar}
    f1 = exo_forms(H1)[4]      # mult-exact
    f2 = exo_forms(H2)[3]      # list-exact
    s = EquationSolver(run_equation_reduction=red)
    try:
        s.ParseString(make_text(H1, 'line', f1[1], 'x', '5.', tvar).text())
        s.SolveEquation()
        s.ParseString(make_text(H2, 'line', f2[1], 'p', '-2.', tvar).text())
        s.SolveEquation()
    except Exception as e:
        return 'unexpected-error', [core.violation('reuse:valid-input-rejected:' + type(e).__name__, '%s: %s' % (type(e).__name__, str(e)[:160]), case)]
    viols = check_series(s.TimeSeries, H2, f2[2], 'p', -2.0, tvar, case)
    for v in viols:
        v['key'] = 'reuse:' + v['key']
    return ('ok' if not viols else 'violation'), viols


def run_gold_case(kind):
    """The initial gold stock stated in the constructor of the gold-standard sectors is an initial condition like any other."""
    from mc import topo
    case = {'path': 'gold', 'gov': kind}
    spec = {'countries': [topo.base_country('AA'), topo.base_country('BB')], 'ext': 'last',
            'links': [['gift', 'AA', 'BB', True, True]], 'xr': {'AA': 'x2', 'BB': 'xvar'}, 'horizon': 2}
    spec['countries'][0]['gov'] = kind
    r = topo.run(spec)
    if r.stage == 'build' or (r.error is not None and type(r.error).__name__ != 'ConvergenceError'):
        return 'error', [core.violation('gold:model-fails:' + type(r.error).__name__, str(r.error)[:160], case)]
    holder = 'AA_GOV' if kind == 'GOLD' else 'AA_CB'
    ts = r.series
    viols = []
    for name in (holder + '__GOLD_OZ', holder + '__LAG_GOLD_OZ'):
        if name not in ts or ts[name][0] != 10.0:
            viols.append(core.violation('gold:initial-stock-not-honoured', '%s[0] = %r, stated initial stock 10.0' % (name, ts.get(name, [None])[0]), case))
    return ('ok' if not viols else 'violation'), viols


def units(tier):
    out = [{'kind': 'reuse'}]
    for H in BOUNDS[tier]['horizons']:
        for hsource in ('line', 'solver-only', 'solver-overrides-line'):
            for tvar in TVARS:
                out.append({'kind': 'solver', 'H': H, 'hsource': hsource, 'tvar': tvar})
        out.append({'kind': 'model', 'H': H})
    return out


def run_unit(unit, tier):
    res = core.new_result()
    dig = core.Digest()
    if unit['kind'] == 'solver':
        H = unit['H']
        for form in exo_forms(H):
            for icvar in ICVARS:
                for icv in (ICVALS if icvar != 'none' else [ICVALS[0]]):
                    for red in (True, False):
                        dig.add((H, unit['hsource'], form[0], icvar, icv[0], unit['tvar'], red))
                        outcome, viols = run_solver_case(H, unit['hsource'], form, icvar, icv, unit['tvar'], red)
                        res['evaluations'] += 1
                        if icvar != 'none' or not form[0].startswith('list-exact'):
                            res['nontrivial'] += 1
                        core.bump(res['outcomes'], 'solver:' + outcome)
                        res['violations'].extend(viols[:2])
        res['samples'] = [{'block': make_text(H, unit['hsource'], exo_forms(H)[1][1], 'p', '5.', unit['tvar']).text()}]
    elif unit['kind'] == 'reuse':
        hs = BOUNDS[tier]['horizons']
        for H1, H2, red, tvar in itertools.product(hs, hs, (True, False), TVARS):
            dig.add(('reuse', H1, H2, red, tvar))
            outcome, viols = run_reuse_case(H1, H2, red, tvar)
            res['evaluations'] += 1
            res['nontrivial'] += 1
            core.bump(res['outcomes'], 'reuse:' + outcome)
            res['violations'].extend(viols[:2])
        for kind in ('GOLD', 'GOLDCB'):
            dig.add(('gold', kind))
            outcome, viols = run_gold_case(kind)
            res['evaluations'] += 1
            res['nontrivial'] += 1
            core.bump(res['outcomes'], 'gold:' + outcome)
            res['violations'].extend(viols[:2])
        res['samples'] = [{'history': 'one solver: ParseString(block, MaxTime=H1), SolveEquation, ParseString(other block, MaxTime=H2), SolveEquation'}]
    else:
        H = unit['H']
        for form_kind in ('str', 'list', 'tuple'):
            for extra in (-1, 0, 3):
                for ic in ('none', 'sector', 'model', 'lag', 'precise', 'third', 'big'):
                    dig.add(('model', H, form_kind, extra, ic))
                    outcome, viols = run_model_case(H, form_kind, extra, ic)
                    if ic in ('none', 'sector') and extra >= 0:
                        dig.add(('model-respecified', H, form_kind, extra, ic))
                        o2, v2 = run_model_case(H, form_kind, extra, ic, hsrc='respecified')
                        res['evaluations'] += 1
                        res['nontrivial'] += 1
                        core.bump(res['outcomes'], 'model:respecified:' + o2)
                        res['violations'].extend(v2[:2])
                    if H >= 1 and ic in ('none', 'lag') and extra >= 0:
                        dig.add(('model-solver-horizon', H, form_kind, extra, ic))
                        o2, v2 = run_model_case(H, form_kind, extra, ic, hsrc='solver')
                        res['evaluations'] += 1
                        res['nontrivial'] += 1
                        core.bump(res['outcomes'], 'model:solver-horizon:' + o2)
                        res['violations'].extend(v2[:2])
                    res['evaluations'] += 1
                    res['nontrivial'] += 1
                    core.bump(res['outcomes'], 'model:' + outcome)
                    res['violations'].extend(viols[:2])
        res['samples'] = [{'model path': 'Sector A with g exogenous (str/list/tuple), x,y simultaneous, u decorative, LAG_x', 'MaxTime': H}]
    best = {}
    for v in res['violations']:
        best.setdefault(v['key'], v)
    res['violations'] = list(best.values())
    res['digest'] = dig.hex()
    return res


def replay(case):
    if case['path'] == 'gold':
        return run_gold_case(case['gov'])[1][:1]
    if case['path'] == 'reuse':
        return run_reuse_case(case['H1'], case['H2'], case['reduction'], case['tvar'])[1][:1]
    if case['path'] == 'model':
        return run_model_case(case['H'], case['form'], case['extra'], case['ic'], hsrc=case.get('hsrc', 'model'))[1][:1]
    form = [f for f in exo_forms(case['H']) if f[0] == case['form']][0]
    icv = [v for v in ICVALS if v[0] == case['icval']][0]
    return run_solver_case(case['H'], case['hsource'], form, case['icvar'], icv, case['tvar'], case['reduction'])[1][:1]
