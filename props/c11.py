"""
C11 - unsolvable or invalid input fails loudly and in bounded work.

(a) failure direction: failure families (expansive, oscillating, overflowing, persistent arithmetic error in the
    simultaneous core and in a decorative tail, persistent error together with a non-converging remainder) switched
    on in period s through an exogenous path, x iteration caps x tolerances x reduction; transient errors must succeed;
(b) success direction: every affine sup-norm contraction (factor <= 0.8) of the alphabet, 12-variable structured
    worst cases and non-linear contractions must be solved within the default cap;
(c) rejection before numbers: every reserved / shadowing name (lists computed here from the stdlib) as endogenous or
    exogenous variable and as right-hand-side token, both reduction settings, both entry points; ill-formed declarations.
"""
import builtins
import itertools
import keyword
import math

from mc import core
from mc.blocks import Block

core.setup_repo_path()
from sfc_models.equation_solver import EquationSolver  # noqa
from sfc_models.models import Model, Country  # noqa
from sfc_models.sector import Sector, Market  # noqa
from sfc_models.sector_definitions import (ConsolidatedGovernment, Household, FixedMarginBusiness, TaxFlow,  # noqa
                                           GoldStandardGovernment)

ID = 'C11'
LEVEL = 'exploration'
RULE = ('(a) 11 failure families x failing period s in 1..3 x cap in {0,1,2,10,11,50,400} x tolerance {1e-4,1e-8} x reduction; '
        'oracle: ValueError/ConvergenceError, traced sweeps <= cap+1 (public step trace), wall-clock watchdog, all non-exogenous '
        'series of equal length and equal to the successful solve of the shorter horizon; (b) all 2-variable affine maps with entries '
        'in {0,+-.2,+-.4,+-.8} (thorough: also all 3-variable maps with entries in {0,+-.4}), row sums <= .8, corner constants, two tolerances, plus n=12 structured cases and non-linear contractions: '
        'must return within the default cap; (c) all names of keyword.kwlist + dir(builtins) + dir(math) + k in 3 positions x reduction x '
        'entry point, and 9 kinds of ill-formed declarations: must raise with no series produced; non-trivial = cases that reached the '
        'behaviour under test (failed in the intended period / converged / were refused)')
ASSUMPTIONS = [
    'a case running longer than 30 s wall-clock counts as unbounded work (the largest legitimate case takes < 0.5 s)',
    '"rejected with an error" = any exception; for (a) the statement names convergence/value errors, so ValueError or a subclass is required',
    'RHS-token rejection excludes the documented arithmetic helpers float,max,min,sum,pow,abs,round',
]
BOUNDS = {'quick': {'n_affine': 2}, 'thorough': {'n_affine': 3}}

CAPS = [0, 1, 2, 10, 11, 50, 400]
TOLS = ['1e-4', '1e-8']


def sw(lo, hi, s, n=6):
    """exogenous switch path: lo for k < s, hi from k = s on"""
    return '[' + ', '.join(repr(lo if k < s else hi) for k in range(n)) + ']'


def families(s):
    H = 3
    return [
        ('expansive', Block([('x', 'g*x + 1')], exos=[('g', sw(.5, 3., s))], maxtime=H), 'fail'),
        ('expansive-pair', Block([('x', 'g*y + 1'), ('y', '1.5*x')], exos=[('g', sw(.2, 1.5, s))], maxtime=H), 'fail'),
        ('oscillating', Block([('x', '1 - g*x')], exos=[('g', sw(.5, 3., s))], maxtime=H), 'fail'),
        ('overflowing', Block([('x', 'g*x*x + 1')], exos=[('g', sw(.01, 1e200, s))], maxtime=H), 'fail'),
        ('overflow-pow', Block([('x', '.5*x + g**2')], exos=[('g', sw(2., 1e200, s))], maxtime=H), 'fail'),
        ('div0-core', Block([('x', '.5*x + 1/h')], exos=[('h', sw(1., 0., s))], maxtime=H), 'fail'),
        ('log0-core', Block([('x', '.5*x + log10(h)')], exos=[('h', sw(1., 0., s))], maxtime=H), 'fail'),
        ('div0-decorative', Block([('x', '.5*x + 1'), ('y', '2*x'), ('dd', '1/h')], exos=[('h', sw(1., 0., s))], maxtime=H), 'fail'),
        ('log0-decorative', Block([('x', '.5*x + 1'), ('dd', 'log10(h) + x')], exos=[('h', sw(1., 0., s))], maxtime=H), 'fail'),
        ('div0-plus-oscillation', Block([('x', '1/h'), ('y', '1 - g*y')], exos=[('h', sw(1., 0., s)), ('g', sw(.5, 3., s))], maxtime=H), 'fail'),
        ('div0-plus-oscillation-dec', Block([('x', '1/h + 0*y'), ('y', '1 - g*y'), ('u', 'x + y')],
                                            exos=[('h', sw(1., 0., s)), ('g', sw(.5, 3., s))], maxtime=H), 'fail'),
        ('transient-div0', Block([('z', 't'), ('x', '1/z')], maxtime=H), 'succeed'),
        ('transient-div0-feedback', Block([('z', 't + 0*x'), ('x', '1/z + .5*y'), ('y', '.5*x')], maxtime=H), 'succeed'),
    ]


def nonexo(block):
    ex = set(v for v, r in block.exos) | {'k'}
    return ex


def solve(text, red, cap, trace=None, steady=False):
    s = EquationSolver(text, run_equation_reduction=red)
    s.MaxIterations = cap
    if steady:
        s.ParameterSolveInitialSteadyState = True
        s.ParameterInitialSteadyStateMaxTime = 40
    if trace is not None:
        s.TraceStep = trace
    err = None
    try:
        core.with_deadline(30.0, s.SolveEquation)
    except core.WorkBudgetExceeded:
        err = 'HANG'
    except Exception as e:
        err = e
    return s, err


def check_failure(label, block, expect, s_period, red, tol, cap, steady=False):
    case = {'part': 'a', 'family': label, 's': s_period, 'reduction': red, 'tol': tol, 'cap': cap, 'steady': steady}
    blk = Block.from_json(block.as_json())
    blk.tol = tol
    text = blk.text()
    sol, err = solve(text, red, cap, steady=steady)
    if err == 'HANG':
        return 'hang', [core.violation('unbounded-work', 'solve did not stop within 30 s (cap %d)' % cap, case)], False
    if err is None:
        bad = sorted(v for v, x in sol.TimeSeries.items() if any(isinstance(y, float) and (y != y or y in (float('inf'), float('-inf'))) for y in x))
        if bad:
            # a period whose iterate is not a finite number cannot have met the tolerance
            return 'nonfinite-returned', [core.violation('nonfinite-period-returned-normally', 'solve returned normally with non-finite values in %s' % bad[:4], case)], False
        if expect == 'fail' and cap >= 50:
            # a failing family that returns normally: not this property's clause (C02 judges returned values) unless
            # the intended failure is an arithmetic error that must persist
            if 'div0' in label or 'log0' in label:
                return 'arith-error-ignored', [core.violation('persistent-arithmetic-error-ignored',
                                                              'period with a persistent arithmetic error returned normally', case)], False
            return 'returned', [], False
        return 'returned', [], expect == 'succeed'
    if expect == 'succeed' and cap >= 400:
        return 'transient-failed', [core.violation('transient-error-fatal:' + type(err).__name__,
                                                   'a transient first-sweep error made the solve fail: %s' % str(err)[:120], case)], False
    viols = []
    if not isinstance(err, ValueError):
        viols.append(core.violation('wrong-exception:' + type(err).__name__, 'raised %s: %s' % (type(err).__name__, str(err)[:120]), case))
    ex = nonexo(blk)
    lens = dict((v, len(x)) for v, x in sol.TimeSeries.items() if v not in ex)
    if len(set(lens.values())) > 1:
        viols.append(core.violation('ragged-series-after-failure', 'lengths after the failure: %s' % sorted(lens.items()), case))
        return 'failed', viols, True
    L = list(lens.values())[0] if lens else 0
    if L < 1:
        viols.append(core.violation('no-initial-period', 'series empty after failure', case))
        return 'failed', viols, True
    # prefix intact: equals the solve of the shorter horizon
    if L > 1:
        ref_blk = Block.from_json(blk.as_json())
        ref_blk.maxtime = L - 1
        ref, rerr = solve(ref_blk.text(), red, cap, steady=steady)
        if rerr is not None:
            viols.append(core.violation('prefix-not-reproducible', 'periods 1..%d were reported solved but solving them alone fails: %r' % (L - 1, rerr), case))
        else:
            for v in lens:
                if list(sol.TimeSeries[v]) != list(ref.TimeSeries[v]):
                    viols.append(core.violation('prefix-corrupted', '%s after failure %r, solved alone %r' % (v, sol.TimeSeries[v], ref.TimeSeries[v]), case))
                    break
    # bounded work: trace the failing period
    tr, terr = solve(text, red, cap, trace=L, steady=steady)
    if terr == 'HANG':
        viols.append(core.violation('unbounded-work', 'traced solve did not stop within 30 s', case))
    elif terr is None or type(terr) is not type(err):
        # tracing the failing period only records: the failure must be reported in the same way
        viols.append(core.violation('tracing-changes-failure', 'untraced solve raises %s, the solve with the failing period traced %s' % (
            type(err).__name__, 'returns normally' if terr is None else 'raises ' + type(terr).__name__), case))
    else:
        sweeps = len(tr.TimeSeriesStepTrace.get('iteration', []))
        if sweeps > cap + 1:
            viols.append(core.violation('too-many-sweeps', 'failing period %d used %d sweeps, cap+1 = %d' % (L, sweeps, cap + 1), case))
    hit = (L == s_period) or cap < 50
    return 'failed:' + type(err).__name__, viols, hit


# ---------------------------------------------------------------------------------------------
# (b)

ENTRIES = [0., .2, -.2, .4, -.4, .8, -.8]
CORNERS = [0., 1., -3.5, 1e3]


def affine_rows(n):
    """rows of the contraction matrices: n=2 full entry alphabet, n=3 entries in {0, +-.4} (thorough)"""
    entries = ENTRIES if n == 2 else [0., .4, -.4]
    return [r for r in itertools.product(entries, repeat=n) if sum(abs(x) for x in r) <= .8 + 1e-12]


def affine_text(A, b, tol):
    n = len(A)
    names = ['v%d' % i for i in range(n)]
    eqs = []
    for i in range(n):
        terms = ['%r*%s' % (A[i][j], names[j]) for j in range(n) if A[i][j] != 0]
        terms.append(repr(float(b[i])))
        eqs.append((names[i], ' + '.join(terms)))
    return Block(eqs, maxtime=2, tol=tol).text()


def structured():
    out = []
    n = 12
    for bval in (1e3, 1.):
        cyc = [[(.8 if j == (i + 1) % n else 0.) for j in range(n)] for i in range(n)]
        out.append(('cyclic.8', cyc, [bval] * n))
        dense = [[.8 / n] * n for i in range(n)]
        out.append(('dense.8', dense, [bval] * n))
        alt = [[(-.8 if j == (i + 1) % n else 0.) for j in range(n)] for i in range(n)]
        out.append(('alternating-.8', alt, [bval * (1 if i % 2 else -1) for i in range(n)]))
        blockd = [[(.4 if (j // 2 == i // 2) else 0.) for j in range(n)] for i in range(n)]
        out.append(('block-diagonal', blockd, [bval] * n))
        selfl = [[(.8 if j == i else 0.) for j in range(n)] for i in range(n)]
        out.append(('self-loops.8', selfl, [bval] * n))
        osc = [[(-.8 if j == i else 0.) for j in range(n)] for i in range(n)]
        out.append(('self-loops-.8', osc, [bval] * n))
    return out


NONLINEAR = [
    ('sin', Block([('x', '.8*sin(y)'), ('y', '.8*x + 1.')], maxtime=2)),
    ('sqrt', Block([('x', '.4*sqrt(y*y + 1.) + .4*x'), ('y', '.5*x + 3.')], maxtime=2)),
    ('abs', Block([('x', '.8*abs(y) - 1.'), ('y', '-.8*x + 2.')], maxtime=2)),
    ('tanh', Block([('x', '.8*tanh(y) + 1e3'), ('y', '.8*x')], maxtime=2)),
]


def check_success(label, text, case):
    s, err = solve(text, True, 400)
    s2, err2 = solve(text, False, 400)
    viols = []
    for red, e in ((True, err), (False, err2)):
        if e == 'HANG':
            viols.append(core.violation('unbounded-work', 'contraction did not stop within 30 s', dict(case, reduction=red)))
        elif e is not None:
            viols.append(core.violation('contraction-not-solved:' + type(e).__name__,
                                        '%s: a 0.8-contraction was not solved within the default cap (reduction=%s): %s' % (label, red, str(e)[:100]),
                                        dict(case, reduction=red)))
    return viols


# ---------------------------------------------------------------------------------------------
# (c)

def reserved_names():
    names = set(keyword.kwlist) | set(dir(builtins)) | set(dir(math)) | {'k'}
    return sorted(names)


def rhs_reserved():
    names = (set(keyword.kwlist) | set(dir(builtins))) - {'float', 'max', 'min', 'sum', 'pow', 'abs', 'round'}
    return sorted(names)


def check_name(name, position, red, route):
    case = {'part': 'c', 'name': name, 'position': position, 'reduction': red, 'route': route}
    if position == 'endogenous':
        text = 'x = .5*x + 1\n%s = 2.\nMaxTime = 1' % name
    elif position == 'exogenous':
        text = 'x = .5*x + 1\n# exogenous variables\n%s = [1., 2., 3.]\nMaxTime = 1' % name
    elif position == 'lagged':
        text = 'x = .5*x + 1\n%s = x(k-1)\nMaxTime = 1' % name
    else:
        text = 'x = .5*x + %s\nMaxTime = 1' % name
    s = None
    err = None
    try:
        if route == 'ctor':
            s = EquationSolver(text, run_equation_reduction=red)
        else:
            s = EquationSolver(run_equation_reduction=red)
            s.ParseString(text)
        core.with_deadline(30.0, s.SolveEquation)
    except core.WorkBudgetExceeded:
        return 'hang', [core.violation('unbounded-work', 'did not stop', case)]
    except Exception as e:
        err = e
    if err is None:
        return 'accepted', [core.violation('reserved-name-accepted:' + position, 'name %r accepted as %s (reduction=%s, %s) and solved' % (
            name, position, red, route), case)]
    if s is not None and any(len(x) > 0 for x in s.TimeSeries.values()):
        return 'numbers', [core.violation('reserved-name-numbers-produced:' + position, 'series exist after refusing %r' % name, case)]
    return 'refused:' + type(err).__name__, []


def declaration_cases():
    def dup_country():
        m = Model(); Country(m, 'CO'); Country(m, 'CO'); return m

    def dup_sector():
        m = Model(); c = Country(m, 'CO'); Sector(c, 'A'); Sector(c, 'A'); return m

    def dunder_addvar():
        m = Model(); c = Country(m, 'CO'); a = Sector(c, 'A'); a.AddVariable('a__b', '', '1.'); return m

    def dunder_param():
        m = Model(); c = Country(m, 'CO'); ConsolidatedGovernment(c, 'GOV'); Household(c, 'HH', consumption_good_name='GO__OD')
        FixedMarginBusiness(c, 'BUS', output_name='GO__OD'); Market(c, 'LAB'); Market(c, 'GO__OD'); return m

    def dunder_sector_code():
        m = Model(); c = Country(m, 'CO'); a = Sector(c, 'A__B'); a.AddVariable('q', '', '1.'); return m

    def no_supplier():
        m = Model(); c = Country(m, 'CO'); ConsolidatedGovernment(c, 'GOV'); Household(c, 'HH'); Market(c, 'GOOD'); Market(c, 'LAB')
        FixedMarginBusiness(c, 'BUS', output_name='OTHER'); Market(c, 'OTHER'); return m

    def two_suppliers():
        m = Model(); c = Country(m, 'CO'); ConsolidatedGovernment(c, 'GOV'); Household(c, 'HH'); Market(c, 'GOOD'); Market(c, 'LAB')
        FixedMarginBusiness(c, 'BUS'); FixedMarginBusiness(c, 'BUS2'); return m

    def cross_flow_no_ext():
        m = Model(); a = Country(m, 'AA'); b = Country(m, 'BB')
        ha = Household(a, 'HH'); hb = Household(b, 'HH'); ha.AddVariable('GIFT', '', '5.')
        m.RegisterCashFlow(ha, hb, 'GIFT'); return m

    def cross_supplier_no_ext():
        m = Model(); a = Country(m, 'AA'); b = Country(m, 'BB')
        ConsolidatedGovernment(a, 'GOV'); h = Household(a, 'HH'); ba = FixedMarginBusiness(a, 'BUS'); Market(a, 'LAB'); g = Market(a, 'GOOD')
        bb = FixedMarginBusiness(b, 'BUS'); Household(b, 'HH'); Market(b, 'LAB'); Market(b, 'GOOD'); ConsolidatedGovernment(b, 'GOV')
        g.AddSupplier(bb, '0.2*' + h.GetVariableName('INC')); g.AddSupplier(ba); return m

    def two_suppliers_one_without_balance():
        # two sectors of the country declare the supply variable of a market that has no AddSupplier(); one of them keeps no financial balance
        m = Model(); c = Country(m, 'CO'); ConsolidatedGovernment(c, 'GOV'); Household(c, 'HH'); Market(c, 'GOOD'); Market(c, 'LAB')
        FixedMarginBusiness(c, 'BUS')
        a = Sector(c, 'AGENCY', has_F=False); a.AddVariable('SUP_LAB', 'agency labour', '10.'); return m

    def two_suppliers_plain_sectors():
        m = Model(); c = Country(m, 'CO'); ConsolidatedGovernment(c, 'GOV'); Household(c, 'HH'); Market(c, 'GOOD'); Market(c, 'LAB')
        FixedMarginBusiness(c, 'BUS')
        a = Sector(c, 'AGENCY', has_F=True); a.AddVariable('SUP_LAB', 'agency labour', '10.'); return m

    def cross_residual_supplier_no_ext():
        # the market's residual (and only) supplier lives in another currency zone
        m = Model(); a = Country(m, 'AA'); b = Country(m, 'BB')
        ConsolidatedGovernment(a, 'GOV'); Household(a, 'HH'); g = Market(a, 'GOOD')
        bb = FixedMarginBusiness(b, 'BUS'); Household(b, 'HH'); Market(b, 'LAB'); Market(b, 'GOOD'); ConsolidatedGovernment(b, 'GOV')
        g.AddSupplier(bb); return m

    def cross_residual_with_home_share_no_ext():
        m = Model(); a = Country(m, 'AA'); b = Country(m, 'BB')
        ConsolidatedGovernment(a, 'GOV'); h = Household(a, 'HH'); ba = FixedMarginBusiness(a, 'BUS'); Market(a, 'LAB'); g = Market(a, 'GOOD')
        bb = FixedMarginBusiness(b, 'BUS'); Household(b, 'HH'); Market(b, 'LAB'); Market(b, 'GOOD'); ConsolidatedGovernment(b, 'GOV')
        g.AddSupplier(ba, '0.2*' + h.GetVariableName('INC')); g.AddSupplier(bb); return m

    def cross_flow_substring_currency_no_ext():
        # the second country's currency code is a substring of the first one's: still two different currencies
        m = Model(); a = Country(m, 'US'); b = Country(m, 'S')
        ha = Household(a, 'HH'); hb = Household(b, 'HH'); ha.AddVariable('GIFT', '', '5.')
        m.RegisterCashFlow(ha, hb, 'GIFT'); return m

    def cross_flow_substring_currency_explicit_no_ext():
        m = Model(); a = Country(m, 'AA', currency='EUR'); b = Country(m, 'BB', currency='EU')
        ha = Household(a, 'HH'); hb = Household(b, 'HH'); hb.AddVariable('GIFT', '', '5.')
        m.RegisterCashFlow(hb, ha, 'GIFT'); return m

    def gold_no_ext():
        m = Model(); c = Country(m, 'CO'); GoldStandardGovernment(c, 'GOV'); Household(c, 'HH'); FixedMarginBusiness(c, 'BUS')
        Market(c, 'LAB'); Market(c, 'GOOD'); return m
    return [('duplicate-country', dup_country), ('duplicate-sector', dup_sector), ('dunder-addvariable', dunder_addvar),
            ('dunder-name-parameter', dunder_param), ('dunder-sector-code', dunder_sector_code), ('market-without-supplier', no_supplier),
            ('market-two-suppliers', two_suppliers), ('cross-flow-without-external', cross_flow_no_ext),
            ('cross-supplier-without-external', cross_supplier_no_ext), ('gold-without-external', gold_no_ext),
            ('cross-flow-without-external:currency-code-substring', cross_flow_substring_currency_no_ext),
            ('cross-flow-without-external:currency-code-substring-2', cross_flow_substring_currency_explicit_no_ext),
            ('market-two-suppliers-one-without-balance', two_suppliers_one_without_balance),
            ('market-two-suppliers-plain-sector', two_suppliers_plain_sectors),
            ('cross-residual-supplier-without-external', cross_residual_supplier_no_ext),
            ('cross-residual-supplier-with-home-share-without-external', cross_residual_with_home_share_no_ext)]


def check_declaration(label, fn):
    case = {'part': 'c-decl', 'kind': label}
    m = None
    err = None
    try:
        m = fn()
        m.MaxTime = 2
        core.with_deadline(30.0, m.main)
    except core.WorkBudgetExceeded:
        return 'hang', [core.violation('unbounded-work', 'did not stop', case)]
    except BaseException as e:     # the library raises Warning in one place
        err = e
    if err is None:
        return 'accepted', [core.violation('ill-formed-declaration-accepted:' + label, '%s accepted and solved' % label, case)]
    if m is not None and any(len(x) > 0 for x in m.EquationSolver.TimeSeries.values()):
        return 'numbers', [core.violation('ill-formed-declaration-numbers:' + label, 'series produced although %s was refused' % label, case)]
    return 'refused:' + type(err).__name__, []


# ---------------------------------------------------------------------------------------------

def units(tier):
    out = []
    for s_period in (1, 2, 3):
        for i in range(len(families(s_period))):
            out.append({'part': 'a', 's': s_period, 'family': i})
    n = BOUNDS[tier]['n_affine']
    for nn in range(2, n + 1):
        rows = affine_rows(nn)
        for i0 in range(len(rows)):
            out.append({'part': 'b', 'n': nn, 'row0': i0})
    out.append({'part': 'b-structured'})
    names = reserved_names()
    for i in range(0, len(names), 16):
        out.append({'part': 'c', 'names': names[i:i + 16]})
    rn = rhs_reserved()
    for i in range(0, len(rn), 16):
        out.append({'part': 'c-rhs', 'names': rn[i:i + 16]})
    out.append({'part': 'c-decl'})
    return out


def run_unit(unit, tier):
    res = core.new_result()
    dig = core.Digest()
    part = unit['part']
    if part == 'a':
        label, blk, expect = families(unit['s'])[unit['family']]
        for red in (True, False):
            for tol in TOLS:
                for cap in CAPS:
                    dig.add(('a', label, unit['s'], red, tol, cap))
                    outcome, viols, hit = check_failure(label, blk, expect, unit['s'], red, tol, cap)
                    res['evaluations'] += 1
                    if hit:
                        res['nontrivial'] += 1
                    core.bump(res['outcomes'], 'a:%s:%s' % (label, outcome))
                    res['violations'].extend(viols[:2])
        # configuration: the initial steady-state search (which uses its own, larger iteration budget) runs first
        if label in ('expansive', 'oscillating', 'div0-core'):
            for red in (True, False):
                for cap in (10, 50, 400):
                    dig.add(('a-steady', label, unit['s'], red, cap))
                    outcome, viols, hit = check_failure(label, blk, expect, unit['s'], red, '1e-6', cap, steady=True)
                    res['evaluations'] += 1
                    if hit:
                        res['nontrivial'] += 1
                    core.bump(res['outcomes'], 'a:steady:%s:%s' % (label, outcome))
                    res['violations'].extend(viols[:2])
        res['samples'] = [{'family': label, 'fails in period': unit['s'], 'block': blk.text()}]
    elif part == 'b':
        n = unit['n']
        rows = affine_rows(n)
        first = rows[unit['row0']]
        text = None
        corners = CORNERS if n == 2 else [1., 1e3]
        for rest in itertools.product(rows, repeat=n - 1):
            A = [first] + list(rest)
            for b in itertools.product(corners, repeat=n):
                for tol in ('1e-8', '1e-6'):
                    text = affine_text(A, b, tol)
                    case = {'part': 'b', 'A': [list(r) for r in A], 'b': list(b), 'tol': tol}
                    dig.add(('b', A, b, tol))
                    viols = check_success('affine', text, case)
                    res['evaluations'] += 1
                    res['nontrivial'] += 1
                    core.bump(res['outcomes'], 'b:affine:' + ('solved' if not viols else 'failed'))
                    res['violations'].extend(viols[:1])
        res['samples'] = [{'contraction': text}]
    elif part == 'b-structured':
        for label, A, b in structured():
            for tol in ('1e-8', '1e-6'):
                text = affine_text(A, b, tol)
                case = {'part': 'b-structured', 'label': label, 'b0': b[0], 'tol': tol}
                dig.add(('bs', label, b[0], tol))
                viols = check_success(label, text, case)
                res['evaluations'] += 1
                res['nontrivial'] += 1
                core.bump(res['outcomes'], 'b:%s:%s' % (label, 'solved' if not viols else 'failed'))
                res['violations'].extend(viols[:1])
        for label, blk in NONLINEAR:
            for tol in ('1e-8', '1e-6'):
                b2 = Block.from_json(blk.as_json())
                b2.tol = tol
                case = {'part': 'b-nonlinear', 'label': label, 'tol': tol}
                dig.add(('bn', label, tol))
                viols = check_success(label, b2.text(), case)
                res['evaluations'] += 1
                res['nontrivial'] += 1
                core.bump(res['outcomes'], 'b:nonlinear-%s:%s' % (label, 'solved' if not viols else 'failed'))
                res['violations'].extend(viols[:1])
        res['samples'] = [{'structured': 'n=12 cyclic 0.8, b=1e3'}]
    elif part in ('c', 'c-rhs'):
        positions = ['endogenous', 'exogenous', 'lagged'] if part == 'c' else ['rhs']
        for name in unit['names']:
            for pos in positions:
                for red in (True, False):
                    for route in ('ctor', 'ParseString'):
                        dig.add(('c', name, pos, red, route))
                        outcome, viols = check_name(name, pos, red, route)
                        res['evaluations'] += 1
                        res['nontrivial'] += 1
                        core.bump(res['outcomes'], 'c:%s:%s' % (pos, outcome))
                        res['violations'].extend(viols[:1])
        res['samples'] = [{'reserved names': unit['names'][:5], 'positions': positions}]
    else:
        for label, fn in declaration_cases():
            dig.add(('decl', label))
            outcome, viols = check_declaration(label, fn)
            res['evaluations'] += 1
            res['nontrivial'] += 1
            core.bump(res['outcomes'], 'decl:%s:%s' % (label, outcome))
            res['violations'].extend(viols[:1])
        res['samples'] = [{'declarations': [l for l, f in declaration_cases()]}]
    best = {}
    for v in res['violations']:
        best.setdefault(v['key'], v)
    res['violations'] = list(best.values())
    res['digest'] = dig.hex()
    return res


def replay(case):
    part = case['part']
    if part == 'a':
        for label, blk, expect in families(case['s']):
            if label == case['family']:
                return check_failure(label, blk, expect, case['s'], case['reduction'], case['tol'], case['cap'], case.get('steady', False))[1][:1]
    if part == 'b':
        return check_success('affine', affine_text([tuple(r) for r in case['A']], case['b'], case['tol']), case)[:1]
    if part == 'b-structured':
        for label, A, b in structured():
            if label == case['label'] and b[0] == case['b0']:
                return check_success(label, affine_text(A, b, case['tol']), case)[:1]
    if part == 'b-nonlinear':
        for label, blk in NONLINEAR:
            if label == case['label']:
                b2 = Block.from_json(blk.as_json())
                b2.tol = case['tol']
                return check_success(label, b2.text(), case)[:1]
    if part == 'c':
        return check_name(case['name'], case['position'], case['reduction'], case['route'])[1][:1]
    if part == 'c-decl':
        for label, fn in declaration_cases():
            if label == case['kind']:
                return check_declaration(label, fn)[1][:1]
    return []
