"""
C12 - equation-building arithmetic preserves value.

History BFS over Equation.AddTerm on the real Equation/Term classes, compared step by step with a
reference that is simply "value of the leading expression + signed sum of the values of the added terms"
evaluated exactly (Fractions) at three fixed prime valuations; plus exhaustive enumeration of term lists
for create_equation_from_terms.
"""
import copy
import itertools
from fractions import Fraction

from mc import core, exact

core.setup_repo_path()
from sfc_models.equation import Equation, Term  # noqa
from sfc_models.utils import create_equation_from_terms  # noqa

ID = 'C12'
LEVEL = 'model_checking'
RULE = ('states = (implementation term list, reference value) reached by AddTerm histories from every leading form; '
        'every transition calls the real Equation.AddTerm and compares RHS()/str()/GetRightHandSide() with the exact '
        'reference at 3 prime valuations; non-trivial = histories in which a like-term merge, a cancellation or a '
        'bracketed sign occurred. create_equation_from_terms: every list over the element alphabet up to the bound. '
        'Sector-variable histories: AddTermToEquation interleaved with ReplaceTokensFromLookup (renaming) and SetEquationRightHandSide (replacement of the '
        'leading expression), reference = sum of the renamed pieces since the last replacement.')
ASSUMPTIONS = [
    'leading expressions are arithmetic, or arithmetic on comparisons of names and numbers (no conditionals)',
    'three valuations with distinct primes stand for "every assignment" (value of a Laurent polynomial of degree <= 2 per variable)',
    'an element with an interior + (x+y) passed to create_equation_from_terms may be rejected with an exception but not mis-joined',
]
BOUNDS = {
    'quick': {'addterm_depth': 3, 'list_len': 3, 'termobj_depth': 4},
    'thorough': {'addterm_depth': 4, 'list_len': 4, 'termobj_depth': 5},
}

TERMS = ['x', '+x', '-x', 'y', '-y', '2', '-2.5', 'x*y', '-x*y', 'x/y', '(x)', '(-x)', '-(x)', '-(-x)',
         '-(x*y)', ' ( x ) ', '2*x', '-y*x', 'y/x', 'x/2', '-2/x',
         '0.1234567', '-100000.25']        # constants with more significant digits than a %g keeps
BLOBS = ['x', '-x', 'x+y', 'x-y', '2*x', 'x*y', '(x+y)*2', '0.', '', 'y', '-2.5', 'x/y',
         '(x+y)*(x-y)', '(x-y)', '1234567.25',     # opaque expressions that start AND end with a bracket; a long constant
         'y*(x >= 3)', '(x <= y) + (x == 3)*2']     # comparisons (x = 3 in the first valuation: on the boundary)
LEADS = ([('none', None), ('emptylist', None)] + [('blob', b) for b in BLOBS]
         + [('strrhs', b) for b in BLOBS if b != ''] + [('lhs_eq', b) for b in BLOBS if b != ''])
LIST_ELEMS = ['x', '+x', '-x', ' - y', '2*x', 'x*y', '1e+3*x', '+1e+3', '(x+y)', 'x+y', '-(x)', ' y ']

VALS = [
    {'x': Fraction(3), 'y': Fraction(7)},
    {'x': Fraction(-11), 'y': Fraction(5, 13)},
    {'x': Fraction(17, 2), 'y': Fraction(-19)},
]


# ops of the Term-object exploration: (equation index, pool entry); pool entries 0..2 are Term OBJECTS created once
# per history and re-used, 3..4 are plain strings
POOL = ['y', '-y', 'x*y', 'y', '-y']
OBJ_OPS = [(e, t) for e in (0, 1) for t in range(len(POOL))]


def run_termobj(unit, res, dig):
    depth = unit['depth']
    for n in range(1, depth + 1):
        for rest in itertools.product(range(len(OBJ_OPS)), repeat=n - 1):
            hist = [unit['first']] + list(rest)
            dig.add(('termobj', tuple(hist)))
            v = check_termobj(hist)
            res['evaluations'] += 1
            res['transitions'] += len(hist)
            res['states'] += 1
            res['traces'] += 1
            objs = [OBJ_OPS[i][1] for i in hist if OBJ_OPS[i][1] < 3]
            if len(objs) != len(set(objs)):
                res['nontrivial'] += 1
            if v:
                res['violations'].append(v)
                core.bump(res['outcomes'], 'termobj-violation')
            else:
                core.bump(res['outcomes'], 'termobj-ok-len%d' % n)
    res['max_depth'] = max(res['max_depth'], depth)
    res['samples'].append({'term-object history (equation, pool entry)': [list(OBJ_OPS[i]) for i in hist]})


def check_termobj(hist):
    """Replay one history from scratch on two fresh equations with a fresh pool of Term objects."""
    case = {'kind': 'termobj', 'history': list(hist)}
    eqs = [Equation('p', rhs=[Term('x', is_blob=True)]), Equation('q')]
    refs = [values('x'), (Fraction(0),) * 3]
    pool = [Term(POOL[0]), Term(POOL[1]), Term(POOL[2]), POOL[3], POOL[4]]
    for step, i in enumerate(hist):
        e, t = OBJ_OPS[i]
        try:
            eqs[e].AddTerm(pool[t])
        except Exception as ex:
            return core.violation('addterm-raises:%s' % type(ex).__name__, 'AddTerm(Term object %r) raised %r' % (POOL[t], ex), case)
        refs[e] = tuple(a + b for a, b in zip(refs[e], values(POOL[t])))
        for j in (0, 1):
            try:
                got = values(eqs[j].RHS())
            except Exception as ex:
                return core.violation('invalid-expression', 'RHS %r invalid: %r' % (eqs[j].RHS(), ex), case)
            if got != refs[j]:
                return core.violation('value-lost:shared-term-object',
                                      'after step %d equation %d renders %r = %s, expected %s' % (
                                          step + 1, j, eqs[j].RHS(), [str(x) for x in got], [str(x) for x in refs[j]]), case)
    return None


TWIN_LEADS = ['x', 'x*y', '-x', '2*x', 'x+y']
TWIN_TERMS = ['x', '-x', 'x*y', 'y', '-x*y', '2*x']


def check_twins(lead, form, hist):
    """Equation A is built from a string and receives the history; equation B is built afterwards from the SAME
    string (same constructor form): B must render exactly the string's value, A the string plus the added terms."""
    case = {'kind': 'twins', 'lead': lead, 'form': form, 'history': list(hist)}

    def build(name):
        if form == 'rhs':
            return Equation(name, 'd', rhs=lead)
        if form == 'lhs_eq':
            return Equation(name + ' = ' + lead)
        return Equation(name, 'd', [Term(lead, is_blob=True)])
    a = build('p')
    ref = values(lead)
    for t in hist:
        try:
            a.AddTerm(t)
        except Exception as ex:
            return core.violation('addterm-raises:%s' % type(ex).__name__, 'AddTerm(%r) raised %r' % (t, ex), case)
        ref = tuple(u + w for u, w in zip(ref, values(t)))
    b = build('q')
    try:
        if values(a.RHS()) != ref:
            return core.violation(classify({'lead': [form, lead], 'history': list(hist)}), 'first equation renders %r, expected value %s' % (a.RHS(), [str(x) for x in ref]), case)
        if values(b.RHS()) != values(lead):
            return core.violation('value-leaks-between-equations', 'a second equation built from %r renders %r after the first one received %r' % (
                lead, b.RHS(), hist), case)
    except Exception as ex:
        return core.violation('invalid-expression', 'rendering not evaluable: %r' % (ex,), case)
    return None


def value(expr, v):
    e = expr.strip()
    if e == '':
        return Fraction(0)
    return exact.eval_at(e, v)


def values(expr):
    return tuple(value(expr, v) for v in VALS)


def make_equation(lead):
    kind, arg = lead
    if kind == 'none':
        return Equation('q'), (Fraction(0),) * 3
    if kind == 'emptylist':
        return Equation('q', rhs=[]), (Fraction(0),) * 3
    if kind == 'blob':
        return Equation('q', 'desc', [Term(arg, is_blob=True)]), values(arg)
    if kind == 'strrhs':
        return Equation('q', 'desc', rhs=arg), values(arg)
    if kind == 'lhs_eq':
        return Equation('q = ' + arg), values(arg)
    raise ValueError(kind)


def state_key(eq):
    return tuple((t.Term, t.Constant, t.IsBlob) for t in eq.TermList)


def check_equation(eq, ref, case):
    """Oracle for one state. Returns a violation dict or None."""
    try:
        rhs = eq.RHS()
        rhs2 = eq.GetRightHandSide()
        full = str(eq)
    except Exception as e:
        return core.violation('render-raises:%s' % type(e).__name__, 'rendering raised %r' % (e,), case)
    if rhs != rhs2:
        return core.violation('rhs-vs-getrhs', 'RHS()=%r GetRightHandSide()=%r' % (rhs, rhs2), case)
    right = full.split('=', 1)[1]
    if '#' in right:
        right = right.split('#', 1)[0]
    if right.strip() != rhs.strip():
        return core.violation('str-vs-rhs', 'str()=%r RHS()=%r' % (full, rhs), case)
    try:
        got = values(rhs)
    except Exception as e:
        return core.violation('invalid-expression', 'RHS %r is not a valid expression: %r' % (rhs, e), case)
    if got != ref:
        return core.violation(classify(case), 'RHS()=%r evaluates to %s, expected %s' % (
            rhs, [str(x) for x in got], [str(x) for x in ref]), case)
    return None


def classify(case):
    """Signature of the failing class, computed from the case itself."""
    lead = case['lead']
    hist = case['history']
    norm = lambda s: s.replace(' ', '')
    if lead[0] in ('blob', 'strrhs', 'lhs_eq'):
        bare = norm(lead[1])
        for t in hist:
            tt = norm(t).lstrip('+-')
            if tt.startswith('(') and tt.endswith(')'):
                tt = tt[1:-1].lstrip('+-')
            if tt == bare.lstrip('+-'):
                return 'value-lost:term-spelled-like-leading-expression'
    return 'value-lost:addterm'


def nontrivial_history(hist):
    bare = []
    for t in hist:
        tt = t.replace(' ', '').lstrip('+-')
        if tt.startswith('('):
            return True
        bare.append(tt)
    return len(set(bare)) < len(bare)


# histories on a variable of a real Sector: term additions interleaved with a renaming of the names (what the model does
# when it qualifies the equations) and with a replacement of the whole right-hand side (SetEquationRightHandSide)
SV_OPS = ([['add', t] for t in ('x', '-x', 'y', 'x*y', 'w', '2*x')] + [['rename', {'x': 'w'}], ['rename', {'x': 'y', 'y': 'x'}]]
          + [['reset', r] for r in ('y', 'x+y', '')])
SV_VALS = [dict(v, w=Fraction(n)) for v, n in zip(VALS, (23, -29, 31))]
import re as _re


def _rename_text(txt, lookup):
    return _re.sub(r'[A-Za-z_]\w*', lambda m: lookup.get(m.group(0), m.group(0)), txt)


def check_sector_variable(hist):
    from sfc_models.models import Model, Country
    from sfc_models.sector import Sector
    case = {'kind': 'sectorvar', 'history': [list(o) for o in hist]}
    sec = Sector(Country(Model(), 'CO'), 'SEC', has_F=False)
    sec.AddVariable('v', 'variable', 'x')
    pieces = ['x']            # reference: texts whose values are summed
    for step, op in enumerate(hist):
        try:
            if op[0] == 'add':
                sec.AddTermToEquation('v', op[1])
                pieces.append(op[1])
            elif op[0] == 'rename':
                sec.EquationBlock['v'].ReplaceTokensFromLookup(dict(op[1]))
                pieces = [_rename_text(p_, op[1]) for p_ in pieces]
            else:
                sec.SetEquationRightHandSide('v', op[1])
                pieces = [op[1]]
        except Exception as ex:
            return core.violation('sector-variable-call-raises:%s:%s' % (op[0], type(ex).__name__), 'step %d %r raised %r' % (step + 1, op, ex), case)
        rhs = sec.EquationBlock['v'].RHS()
        try:
            got = tuple(exact.eval_at(rhs, v) if rhs.strip() else Fraction(0) for v in SV_VALS)
        except Exception as ex:
            return core.violation('invalid-expression', 'after step %d the right-hand side %r is not evaluable: %r' % (step + 1, rhs, ex), case)
        want = tuple(sum((exact.eval_at(p_, v) for p_ in pieces if p_.strip()), Fraction(0)) for v in SV_VALS)
        if got != want:
            kinds = sorted(set(o[0] for o in hist[:step + 1]))
            return core.violation('value-lost:sector-variable:' + '+'.join(kinds), 'after step %d (%r) the right-hand side %r = %s, expected the sum of %r = %s' % (
                step + 1, op, rhs, [str(x) for x in got], pieces, [str(x) for x in want]), case)
    return None


def units(tier):
    out = []
    for first in range(len(SV_OPS)):
        out.append({'kind': 'sectorvar', 'first': first, 'depth': 4 if tier == 'quick' else 5})
    for lead in LEADS:
        for t in TERMS:
            out.append({'kind': 'addterm', 'lead': list(lead), 'first': t})
    n = BOUNDS[tier]['list_len']
    for first in LIST_ELEMS:
        out.append({'kind': 'list', 'first': first, 'maxlen': n})
    out.append({'kind': 'list0'})
    # Term objects (instead of strings) handed to AddTerm, re-used within and across two equations
    for first in range(len(OBJ_OPS)):
        out.append({'kind': 'termobj', 'first': first, 'depth': BOUNDS[tier]['termobj_depth']})
    for lead in TWIN_LEADS:
        out.append({'kind': 'twins', 'lead': lead, 'depth': 3 if tier == 'quick' else 4})
    return out


def run_unit(unit, tier):
    res = core.new_result()
    dig = core.Digest()
    if unit['kind'] == 'addterm':
        run_addterm(unit, BOUNDS[tier]['addterm_depth'], res, dig)
    elif unit['kind'] == 'list':
        run_lists(unit, res, dig)
    elif unit['kind'] == 'termobj':
        run_termobj(unit, res, dig)
    elif unit['kind'] == 'sectorvar':
        for n in range(1, unit['depth'] + 1):
            for rest in itertools.product(range(len(SV_OPS)), repeat=n - 1):
                hist = [SV_OPS[unit['first']]] + [SV_OPS[i] for i in rest]
                dig.add(('sectorvar', repr(hist)))
                v = check_sector_variable(hist)
                res['evaluations'] += 1
                res['transitions'] += n
                res['states'] += 1
                res['traces'] += 1
                if len(set(o[0] for o in hist)) > 1:
                    res['nontrivial'] += 1
                if v:
                    res['violations'].append(v)
                    core.bump(res['outcomes'], 'sectorvar-violation')
                else:
                    core.bump(res['outcomes'], 'sectorvar-ok-len%d' % n)
        res['max_depth'] = max(res['max_depth'], unit['depth'])
        res['samples'].append({'sector variable history': hist})
        best = {}
        for v in res['violations']:
            if v['key'] not in best or len(v['case']['history']) < len(best[v['key']]['case']['history']):
                best[v['key']] = v
        res['violations'] = list(best.values())
    elif unit['kind'] == 'twins':
        for form in ('rhs', 'lhs_eq', 'blob'):
            for n in range(1, unit['depth'] + 1):
                for hist in itertools.product(TWIN_TERMS, repeat=n):
                    dig.add(('twins', unit['lead'], form, hist))
                    v = check_twins(unit['lead'], form, hist)
                    res['evaluations'] += 1
                    res['transitions'] += n + 2
                    res['states'] += 1
                    res['traces'] += 1
                    res['nontrivial'] += 1
                    if v:
                        res['violations'].append(v)
                        core.bump(res['outcomes'], 'twins-violation')
                    else:
                        core.bump(res['outcomes'], 'twins-ok')
        res['samples'].append({'twins': 'Equation(p, rhs=%r) + history, then Equation(q, rhs=%r)' % (unit['lead'], unit['lead'])})
    else:
        r = create_equation_from_terms([])
        res['evaluations'] += 1
        core.bump(res['outcomes'], 'empty-list:%r' % (r,))
        if r.strip() != '' and values(r) != (0, 0, 0):
            res['violations'].append(core.violation('empty-list', 'empty list renders %r' % (r,), {'kind': 'list', 'terms': []}))
    res['digest'] = dig.hex()
    return res


def run_addterm(unit, depth, res, dig):
    lead = tuple(unit['lead'])
    # root state (depth 0) is checked by the unit whose first term is TERMS[0] only, to count it once
    eq0, ref0 = make_equation(lead)
    if unit['first'] == TERMS[0]:
        case = {'kind': 'addterm', 'lead': list(lead), 'history': []}
        res['states'] += 1
        res['evaluations'] += 1
        v = check_equation(eq0, ref0, case)
        if v:
            res['violations'].append(v)
    frontier = [(eq0, ref0, [])]
    seen = set()
    for d in range(1, depth + 1):
        nxt = []
        for eq, ref, hist in frontier:
            alphabet = [unit['first']] if d == 1 else TERMS
            for t in alphabet:
                eq2 = copy.deepcopy(eq)
                h2 = hist + [t]
                case = {'kind': 'addterm', 'lead': list(lead), 'history': h2}
                res['transitions'] += 1
                res['evaluations'] += 1
                try:
                    eq2.AddTerm(t)
                except Exception as e:
                    res['violations'].append(core.violation(
                        'addterm-raises:%s' % type(e).__name__, 'AddTerm(%r) raised %r' % (t, e), case))
                    continue
                ref2 = tuple(a + b for a, b in zip(ref, values(t)))
                v = check_equation(eq2, ref2, case)
                if v:
                    res['violations'].append(v)
                    core.bump(res['outcomes'], 'violation')
                key = (state_key(eq2), ref2)
                dig.add((lead, tuple(h2)))
                if nontrivial_history(h2):
                    res['nontrivial'] += 1
                if key in seen:
                    core.bump(res['outcomes'], 'merged-into-known-state')
                    continue
                seen.add(key)
                res['states'] += 1
                res['max_depth'] = max(res['max_depth'], d)
                core.bump(res['outcomes'], 'terms=%d' % len(eq2.TermList))
                if len(res['samples']) < 2 and d == depth:
                    res['samples'].append({'lead': list(lead), 'history': h2, 'rhs': eq2.RHS()})
                nxt.append((eq2, ref2, h2))
        frontier = nxt
    res['traces'] += res['transitions']


def run_lists(unit, res, dig):
    first = unit['first']
    for n in range(1, unit['maxlen'] + 1):
        for rest in itertools.product(LIST_ELEMS, repeat=n - 1):
            terms = [first] + list(rest)
            v = check_list(terms)
            res['evaluations'] += 1
            dig.add(tuple(terms))
            if any(('+' in t.strip()[1:]) or t != t.strip() for t in terms):
                res['nontrivial'] += 1
            if v == 'rejected':
                core.bump(res['outcomes'], 'rejected-interior-plus')
            elif v:
                res['violations'].append(v)
                core.bump(res['outcomes'], 'violation')
            else:
                core.bump(res['outcomes'], 'ok-len%d' % n)
            if len(res['samples']) < 1 and n == unit['maxlen']:
                res['samples'].append({'terms': terms, 'joined': create_equation_from_terms(list(terms))})


def check_list(terms):
    case = {'kind': 'list', 'terms': terms}
    arg = list(terms)
    try:
        out = create_equation_from_terms(arg)
    except Exception as e:
        if any(t.strip() == 'x+y' for t in terms):
            return 'rejected'
        return core.violation('join-raises:%s' % type(e).__name__, 'raised %r' % (e,), case)
    if arg != terms:
        return core.violation('join-mutates-argument', 'list changed to %r' % (arg,), case)
    ref = tuple(sum(c) for c in zip(*[values(t) for t in terms]))
    try:
        got = values(out)
    except Exception as e:
        return core.violation('join-invalid-expression', '%r is not a valid expression (%r)' % (out, e), case)
    if got != ref:
        key = 'join-value-lost'
        if '+' in terms[0].strip()[1:]:
            key += ':first-element-with-interior-plus'
        return core.violation(key, 'joined %r evaluates to %s expected %s' % (out, [str(x) for x in got], [str(x) for x in ref]), case)
    return None


def replay(case):
    if case['kind'] == 'twins':
        v = check_twins(case['lead'], case['form'], case['history'])
        return [v] if v else []
    if case['kind'] == 'termobj':
        v = check_termobj(case['history'])
        return [v] if v else []
    if case['kind'] == 'sectorvar':
        v = check_sector_variable([list(o) for o in case['history']])
        return [v] if v else []
    if case['kind'] == 'list':
        v = check_list(list(case['terms']))
        return [v] if v and v != 'rejected' else []
    eq, ref = make_equation(tuple(case['lead']))
    out = []
    v = check_equation(eq, ref, {'kind': 'addterm', 'lead': case['lead'], 'history': []})
    if v:
        out.append(v)
    hist = []
    for t in case['history']:
        hist.append(t)
        c = {'kind': 'addterm', 'lead': case['lead'], 'history': list(hist)}
        try:
            eq.AddTerm(t)
        except Exception as e:
            out.append(core.violation('addterm-raises:%s' % type(e).__name__, 'AddTerm(%r) raised %r' % (t, e), c))
            break
        ref = tuple(a + b for a, b in zip(ref, values(t)))
        v = check_equation(eq, ref, c)
        if v:
            out.append(v)
    return out[-1:] if out else []
