"""
C13 - name substitution is hygienic and simultaneous.

Exhaustive enumeration of (expression, renaming map) pairs: every expression of the grammar up to the token bound, in
compact and padded spelling, against every renaming map up to the size bound (swaps, chains, prefixes of longer
names, absent names, placeholder-shaped and qualified replacement names).  The three public utilities and the
callers named by the property (Term / Equation / EquationBlock .ReplaceTokensFromLookup) are executed for real and
judged by an independent scanner (own regex tokenizer; the generator knows the token list it emitted) and by
evaluation under correspondingly renamed environments.
"""
import itertools
import re
from fractions import Fraction

from mc import core

core.setup_repo_path()
from sfc_models.utils import list_tokens, replace_token, replace_token_from_lookup  # noqa
from sfc_models.equation import Term, Equation, EquationBlock  # noqa
from sfc_models.equation_parser import EquationParser  # noqa

ID = 'C13'
LEVEL = 'exploration'
RULE = ('expressions: all token sequences derivable from E := atom | E op E | -E | (E) | f(E) | name(k-1) | [E, E] | E if E else E with '
        '<= 3 tokens over the full atom alphabet (6 names incl. prefix/suffix pairs, 8 number spellings incl. 1e5/0x1f/1_000/2j, 2 strings, '
        '10 operators) and <= 5 (quick) / 6 (thorough) tokens over a reduced alphabet, compact and padded; maps: all maps of size <= 2 from '
        'names (incl. an absent one) to {x,y,xx,z,HH__F,_7__F}; oracle: list_tokens == emitted identifier tokens; output re-scanned == input '
        'tokens with exactly the mapped NAME tokens replaced once; value preserved under the renamed environment when the map is injective on '
        'the names present; same for Term/Equation/EquationBlock.ReplaceTokensFromLookup on blob and simple (product/quotient) terms; '
        'non-trivial = pairs where the map touches a name present in the expression')
ASSUMPTIONS = [
    '"name tokens" are read lexically, as the tokenizer does (if/else/and count as names for list_tokens)',
    'spacing of the output is free (the doc says so): outputs are compared token-wise',
]
BOUNDS = {'quick': {'full_tokens': 3, 'reduced_tokens': 5}, 'thorough': {'full_tokens': 3, 'reduced_tokens': 6}}

NAMES_FULL = ['x', 'xx', 'x_1', '_x', 'y', 'X']
NUMS_FULL = ['1', '2.', '.5', '1e5', '1E-3', '0x1f', '1_000', '2j']
STRS_FULL = ['"x y"', "'x'"]
OPS_FULL = ['+', '-', '*', '/', '**', '//', '%', '<', '==', 'and']
NAMES_RED = ['x', 'xx', 'y']
NUMS_RED = ['1e5', '2.']
STRS_RED = ['"x y"']
OPS_RED = ['+', '*', '**', '<', 'and']
TARGETS = ['x', 'y', 'xx', 'z', 'HH__F', '_7__F']
KEYS_FULL = NAMES_FULL + ['q']
KEYS_RED = NAMES_RED + ['q']

TOKEN_RE = re.compile(r'''
    "[^"]*" | '[^']*'                                   # strings
  | 0[xX][0-9a-fA-F_]+                                  # hex
  | (?:[0-9][0-9_]*\.?[0-9_]*|\.[0-9][0-9_]*)(?:[eE][-+]?[0-9]+)?[jJ]?   # numbers
  | [A-Za-z_][A-Za-z_0-9]*                              # names
  | \*\*|//|==|<=|>=|!=|[-+*/%<>()\[\],=]               # operators
''', re.X)
NAME_RE = re.compile(r'^[A-Za-z_][A-Za-z_0-9]*$')


def scan(s):
    out = []
    pos = 0
    s2 = s.strip()
    while pos < len(s2):
        if s2[pos].isspace():
            pos += 1
            continue
        m = TOKEN_RE.match(s2, pos)
        if not m:
            return None
        out.append(m.group(0))
        pos = m.end()
    return out


def gen(n, names, nums, strs, ops, memo):
    """All token lists (tuples) of expressions with exactly n tokens."""
    key = n
    if key in memo:
        return memo[key]
    out = set()
    if n == 1:
        for a in names + nums + strs:
            out.add((a,))
    if n >= 2:
        for e in gen(n - 1, names, nums, strs, ops, memo):
            out.add(('-',) + e)
    if n >= 3:
        for e in gen(n - 2, names, nums, strs, ops, memo):
            out.add(('(',) + e + (')',))
        for n1 in range(1, n - 1):
            n2 = n - 1 - n1
            for a in gen(n1, names, nums, strs, ops, memo):
                for b in gen(n2, names, nums, strs, ops, memo):
                    for op in ops:
                        out.add(a + (op,) + b)
    if n >= 4:
        for e in gen(n - 3, names, nums, strs, ops, memo):
            out.add(('f', '(') + e + (')',))
    if n == 6:
        for nm in names:
            out.add((nm, '(', 'k', '-', '1', ')'))
    if n >= 5:
        for n1 in range(1, n - 3):
            n2 = n - 3 - n1
            for a in gen(n1, names, nums, strs, ops, memo):
                for b in gen(n2, names, nums, strs, ops, memo):
                    out.add(('[',) + a + (',',) + b + (']',))
        for n1 in range(1, n - 3):
            for n2 in range(1, n - 2 - n1):
                n3 = n - 2 - n1 - n2
                if n3 < 1:
                    continue
                for a in gen(n1, names[:2], nums[:1], [], ops[:1], memo) if n <= 5 else []:
                    for b in gen(n2, names[:2], nums[:1], [], ops[:1], memo):
                        for c in gen(n3, names[:2], nums[:1], [], ops[:1], memo):
                            out.add(a + ('if',) + b + ('else',) + c)
    memo[key] = out
    return out


def compact(tokens):
    s = ''
    prev = None
    for t in tokens:
        if prev is not None and (prev[-1].isalnum() or prev[-1] in '_."\'') and (t[0].isalnum() or t[0] in '_."\''):
            s += ' '
        elif prev in ('-', '+', '*', '/', '<', '=', '%') and t[0] in '-+*/<=%':
            s += ' '
        s += t
        prev = t
    return s


def maps_for(keys, size):
    out = []
    for n in range(1, size + 1):
        for ks in itertools.combinations(keys, n):
            for vs in itertools.product(TARGETS, repeat=n):
                out.append(dict(zip(ks, vs)))
    return out


def expected_tokens(tokens, m):
    out = []
    for t in tokens:
        if NAME_RE.match(t) and t in m:
            out.append(m[t])
        else:
            out.append(t)
    return out


# float environments: power towers overflow instantly instead of building gigantic integers; equality between the
# original and the renamed evaluation is still exact (same operations on the same values)
ENVS = [
    {'x': 3.0, 'xx': 5.0, 'x_1': 7.0, '_x': 11.0, 'y': 6.5, 'X': -17.0, 'k': 2.0, 'q': 19.0, 'z': 23.0, 'HH__F': 29.0, '_7__F': 31.0},
    {'x': -2.0, 'xx': 0.25, 'x_1': 4.0, '_x': -6.0, 'y': 9.0, 'X': 1.5, 'k': 1.0, 'q': -3.0, 'z': 10.0, 'HH__F': -3.5, '_7__F': 12.0},
]


def ev(text, env):
    e = dict(env)
    e['f'] = lambda v: v * 2 + 1
    try:
        v = eval(text.strip(), {'__builtins__': {}}, e)
        if isinstance(v, float) and v != v:
            v = 'nan'
        return ('v', v)
    except Exception as ex:
        return ('e', type(ex).__name__)


def check_pair(tokens, text, m, case):
    """All oracles for one (expression text, map)."""
    names_present = [t for t in tokens if NAME_RE.match(t)]
    want_names = names_present
    try:
        got = list_tokens(text)
    except Exception as e:
        return core.violation('list_tokens-raises:' + type(e).__name__, 'list_tokens(%r) raised %r' % (text, e), case)
    if got != want_names:
        return core.violation('list_tokens-wrong', 'list_tokens(%r) = %r, name tokens are %r' % (text, got, want_names), case)
    want = expected_tokens(tokens, m)
    outs = []
    try:
        outs.append(('replace_token_from_lookup', replace_token_from_lookup(text, dict(m))))
        if len(m) == 1:
            (k, v), = m.items()
            outs.append(('replace_token', replace_token(text, k, v)))
    except Exception as e:
        return core.violation('replace-raises:' + type(e).__name__, 'replacing in %r with %r raised %r' % (text, m, e), case)
    for fn, out in outs:
        sc = scan(out)
        if sc != want:
            return core.violation(fn + ':' + classify(tokens, m, sc, want), '%s(%r, %r) = %r; tokens %r, expected %r' % (fn, text, m, out, sc, want), case)
    # value under the correspondingly renamed environment
    present = set(names_present)
    image = [m.get(n, n) for n in present]
    if len(set(image)) == len(image) and not (present & {'if', 'else', 'and', 'f'} & set(m)):
        for env in ENVS:
            env2 = dict(env)
            for n in present:
                if n in env:
                    env2[m.get(n, n)] = env[n]
            a = ev(text, env)
            b = ev(outs[0][1], env2)
            if a != b:
                return core.violation('value-changed', '%r -> %r under %r: %r vs %r' % (text, outs[0][1], m, a, b), case)
    return None


def classify(tokens, m, got, want):
    if got is None:
        return 'output-not-scannable'
    if len(got) == len(want):
        for g, w, t in zip(got, want, tokens):
            if g != w:
                if not NAME_RE.match(t):
                    return 'non-name-token-changed'
                if t in m and g == t:
                    return 'name-not-replaced'
                if t in m and g != m[t]:
                    return 'not-simultaneous'
                return 'unrequested-name-changed'
    return 'token-sequence-changed'


# ---------------------------------------------------------------------------------------------
# callers: Term / Equation / EquationBlock

BLOBS = ['x*xx + y', '(x - y)/xx', 'x_1 + x*2.', 'x**2 - xx', 'y + "x"', 'max(x, y) + xx']
SIMPLE_TERMS = ['x', '-x', 'x*xx', '-x*y', 'x/y', '2*x', 'x*0.5', '-(x*y)', '(-x)', 'y/x', 'xx']


def check_callers(m, case_base):
    viols = []
    for blob in BLOBS:
        case = dict(case_base, caller='Term-blob', text=blob)
        t = Term(blob, is_blob=True)
        before = scan(t.Term)
        try:
            t.ReplaceTokensFromLookup(dict(m))
        except Exception as e:
            viols.append(core.violation('caller-raises:' + type(e).__name__, 'Term(blob %r).ReplaceTokensFromLookup(%r) raised %r' % (blob, m, e), case))
            continue
        want = expected_tokens(before, m)
        if scan(t.Term) != want:
            viols.append(core.violation('caller:blob-term:' + classify(before, m, scan(t.Term), want),
                                        'blob %r with %r -> %r, expected tokens %r' % (blob, m, t.Term, want), case))
    for st in SIMPLE_TERMS:
        case = dict(case_base, caller='Term-simple', text=st)
        t = Term(st)
        before = scan(t.Term)
        const = t.Constant
        try:
            t.ReplaceTokensFromLookup(dict(m))
        except Exception as e:
            viols.append(core.violation('caller-raises:' + type(e).__name__, 'Term(%r).ReplaceTokensFromLookup(%r) raised %r' % (st, m, e), case))
            continue
        want = expected_tokens(before, m)
        if scan(t.Term) != want or t.Constant != const:
            viols.append(core.violation('caller:simple-term:' + classify(before, m, scan(t.Term), want),
                                        'term %r with %r -> %r (constant %r), expected tokens %r' % (st, m, t.Term, t.Constant, want), case))
    # an equation block: blob + simple terms, renamed through the block
    blk = EquationBlock()
    eq = Equation('F', 'd', [Term('x*xx + y', is_blob=True)])
    eq.AddTerm('-x*y')
    eq.AddTerm('xx')
    eq2 = Equation('G', 'd', rhs=[])
    eq2.AddTerm('x')
    eq2.AddTerm('-y/x')
    blk.AddEquation(eq)
    blk.AddEquation(eq2)
    before = dict((k, scan(blk[k].RHS())) for k in ('F', 'G'))
    case = dict(case_base, caller='EquationBlock')
    try:
        blk.ReplaceTokensFromLookup(dict(m))
        for k in ('F', 'G'):
            want = expected_tokens(before[k], m)
            got = scan(blk[k].RHS())
            if got != want:
                viols.append(core.violation('caller:equation-block:' + classify(before[k], m, got, want),
                                            'equation %s with %r -> %r, expected tokens %r' % (k, m, blk[k].RHS(), want), case))
    except Exception as e:
        viols.append(core.violation('caller-raises:' + type(e).__name__, 'EquationBlock.ReplaceTokensFromLookup(%r) raised %r' % (m, e), case))
    return viols


REDUCTION_EXPRS = ['w("a")*a + w("b")', "2*a + len('a b')*b", 'a_1 + xa + a*1e5', 'a(k-1)', "[a, 'a']", 'a if a < b else "a"',
                   # string literals holding the other quote character, blanks next to punctuation, doubled blanks
                   'w("it\'s a , a") + a', "w('say \"a\" , a  b') * a", 'w("a - b, c") + w(\'a - b, c\') + a', "w('a  ,  a') + w(\"'\") + a + w(\" ' a , b\")"]


def check_reduction_caller():
    """Alias substitution in the equation reduction (named by the property as a caller of the token utilities): with
    a = b, every NAME token a of the other equations becomes b - nothing inside string literals, no part of a longer name."""
    viols = []
    for expr in REDUCTION_EXPRS:
        case = {'kind': 'reduction-caller', 'expr': expr}
        text = 'a = b\nb = 2.5\ny = %s' % expr
        p = EquationParser()
        try:
            p.ParseString(text)
            p.GenerateTokenList()
            p.FindExactMatches()
        except Exception as e:
            viols.append(core.violation('reduction-caller-raises:' + type(e).__name__, 'FindExactMatches on %r raised %r' % (text, e), case))
            continue
        got = scan(p.AllEquations['y'])
        want = expected_tokens(scan(expr), {'a': 'b'})
        if got != want:
            viols.append(core.violation('caller:reduction:' + classify(scan(expr), {'a': 'b'}, got, want),
                                        'y = %r becomes %r after substituting the alias a = b; expected tokens %r' % (expr, p.AllEquations['y'], want), case))
    return viols


TOKENLIST_EXPRS = ['_1 + 1', '[_1, _2, 3.][0] ** 2', '_ * __', 'a_1 + _1a', '1.5e3 + 2', "'_1' + \"x\"", 'x1 - _9_', 'max(_1, 2.)']


def check_tokenlist_caller():
    """The list of names the parser publishes per equation (EquationParser.Tokens): exactly the name tokens in order."""
    viols = []
    for expr in TOKENLIST_EXPRS:
        case = {'kind': 'tokenlist-caller', 'expr': expr}
        p = EquationParser()
        try:
            p.ParseString('y = %s\n_1 = 2.\n_2 = 3.\nMaxTime = 1' % expr)
            p.GenerateTokenList()
        except Exception as e:
            viols.append(core.violation('tokenlist-caller-raises:' + type(e).__name__, 'GenerateTokenList on %r raised %r' % (expr, e), case))
            continue
        want = [t for t in scan(expr) if NAME_RE.match(t)]
        got = [t for t in p.Tokens.get('y', []) if NAME_RE.match(t)]
        if got != want:
            viols.append(core.violation('caller:parser-token-list-wrong', 'Tokens[y] for %r lists the names %r, expected %r' % (expr, got, want), case))
    return viols


def check_returned_list_history():
    """History: the caller edits the list list_tokens() handed out, then asks again (also through a fresh parser): the second
    answer must again be the name tokens of the expression."""
    from sfc_models.utils import list_tokens
    viols = []
    for expr in ('alpha*LAG_F + max(beta, k) - alpha', 'x + y*x', 'w("a")*a'):
        case = {'kind': 'returned-list-history', 'expr': expr}
        want = [t for t in scan(expr) if NAME_RE.match(t)]
        first = list_tokens(expr)
        first.sort()
        del first[:1]
        second = [t for t in list_tokens(expr) if NAME_RE.match(t)]
        if second != want:
            viols.append(core.violation('list_tokens:answer-depends-on-what-the-caller-did-with-an-earlier-answer',
                                        'list_tokens(%r) after the caller sorted and shortened the first answer: %r, expected %r' % (expr, second, want), case))
            continue
        p1 = EquationParser()
        p1.ParseString('y = %s\nMaxTime = 1' % expr)
        p1.GenerateTokenList()
        del p1.Tokens['y'][:]
        p2 = EquationParser()
        p2.ParseString('y = %s\nMaxTime = 1' % expr)
        p2.GenerateTokenList()
        got = [t for t in p2.Tokens['y'] if NAME_RE.match(t)]
        if got != want:
            viols.append(core.violation('caller:parser-token-list-shared-between-parsers', 'a fresh parser lists %r for %r after another parser\'s list was emptied' % (got, expr), case))
    return viols


def check_model_alias_caller():
    """Placeholders in model-level strings (Model._ReplaceAliasesInString, named by the property's callers through the alias fix-up):
    every placeholder occurrence is replaced whatever stands next to it, nothing else changes."""
    from sfc_models.models import Model, Country
    from sfc_models.sector import Sector
    viols = []
    m = Model()
    c = Country(m, 'CO')
    a = Sector(c, 'AA', has_F=False)
    b = Sector(c, 'BB', has_F=False)
    a.AddVariable('X', 'x', '1.')
    b.AddVariable('Y', 'y', '2.')
    ax, by = a.GetVariableName('X'), b.GetVariableName('Y')
    forms = ['2*{0}', 'max({0},{1})', '[{0}, {1}, 1e5][1]', '{0}**2', '({0} + 1)*{1}', '{0} + {1}', '"{0}" + str({0})', '{0}{0}x + {1}']
    for i, f in enumerate(forms):
        m.AddGlobalEquation('G%d' % i, 'model-level equation', f.format(ax, by))
    try:
        m._GenerateFullSectorCodes()
        m._FixAliases()
        rows = dict((r[0], r[1]) for r in m.GlobalVariables)
    except Exception as e:
        return [core.violation('model-alias-caller-raises:' + type(e).__name__, 'alias fix-up raised %r' % (e,), {'kind': 'model-alias-caller', 'form': forms[0]})]
    for i, f in enumerate(forms):
        case = {'kind': 'model-alias-caller', 'form': f}
        text = f.format(ax, by)
        got = scan(rows.get('G%d' % i, ''))
        want = expected_tokens(scan(text), {ax: 'AA__X', by: 'BB__Y'})
        if got != want:
            viols.append(core.violation('caller:model-alias:' + classify(scan(text), {ax: 'AA__X', by: 'BB__Y'}, got, want),
                                        '%r becomes %r, expected tokens %r' % (text, got, want), case))
    return viols


def check_qualification_caller():
    """Local -> full qualification of sector equations (named by the property as a caller): exactly the sector's OWN
    local names are qualified; a bare name that is not a variable of that sector (a model-level variable, a function)
    stays as it is - whatever other sectors, processed earlier in this or an earlier model, call their variables."""
    from sfc_models.models import Model, Country
    from sfc_models.sector import Sector
    viols = []
    for round_ in (1, 2):      # the second model is built in the same process after the first
        m = Model()
        c = Country(m, 'CO')
        a = Sector(c, 'AA', has_F=False)
        b = Sector(c, 'BB', has_F=False)
        a.AddVariable('rate', 'local variable of AA', '0.5')
        a.AddVariable('x', 'uses its own rate', 'rate*2 + xx')
        a.AddVariable('xx', 'longer name', '1.0')
        b.AddVariable('y', 'uses the model-level rate and a function', 'rate*100. + max(x_1, 2.) + "rate"')
        b.AddVariable('x_1', 'local of BB', '3.0')
        m.AddGlobalEquation('rate', 'model-level parameter', '0.2')
        m._GenerateFullSectorCodes()
        rows = dict((r[0], r[1]) for r in a._CreateFinalEquations() + b._CreateFinalEquations())
        want = {'AA__x': ['AA__rate', '*', '2', '+', 'AA__xx'],
                'BB__y': ['rate', '*', '100.', '+', 'max', '(', 'BB__x_1', ',', '2.', ')', '+', '"rate"']}
        for name, toks in want.items():
            got = scan(rows.get(name, ''))
            if got != toks:
                viols.append(core.violation('caller:qualification:' + ('name-of-another-sector-used' if name == 'BB__y' else 'own-name-wrong'),
                                            'model %d: %s = %r, expected tokens %r' % (round_, name, rows.get(name), toks),
                                            {'kind': 'qualification-caller', 'row': name}))
    return viols


# ---------------------------------------------------------------------------------------------

def expression_sets(tier):
    b = BOUNDS[tier]
    memo = {}
    full = []
    for n in range(1, b['full_tokens'] + 1):
        full.extend(sorted(gen(n, NAMES_FULL, NUMS_FULL, STRS_FULL, OPS_FULL, memo)))
    memo2 = {}
    red = []
    for n in range(4, b['reduced_tokens'] + 1):
        red.extend(sorted(gen(n, NAMES_RED, NUMS_RED, STRS_RED, OPS_RED, memo2)))
    if b['reduced_tokens'] < 6:
        red.extend([(nm, '(', 'k', '-', '1', ')') for nm in NAMES_FULL])
    return full, red


def units(tier):
    full, red = expression_sets(tier)
    out = []
    CH = 40
    for i in range(0, len(full), CH):
        out.append({'set': 'full', 'start': i, 'n': CH})
    CH2 = 250
    for i in range(0, len(red), CH2):
        out.append({'set': 'reduced', 'start': i, 'n': CH2})
    out.append({'set': 'callers'})
    return out


_CACHE = {}


def run_unit(unit, tier):
    res = core.new_result()
    dig = core.Digest()
    if 'sets' not in _CACHE:
        _CACHE['sets'] = expression_sets(tier)
        _CACHE['maps_full'] = maps_for(KEYS_FULL, 2)
        _CACHE['maps_red'] = maps_for(KEYS_RED, 2)
    full, red = _CACHE['sets']
    if unit['set'] == 'callers':
        for m in _CACHE['maps_full']:
            dig.add(sorted(m.items()))
            viols = check_callers(m, {'kind': 'callers', 'map': m})
            res['evaluations'] += len(BLOBS) + len(SIMPLE_TERMS) + 1
            res['nontrivial'] += 1
            core.bump(res['outcomes'], 'callers:' + ('ok' if not viols else 'violation'))
            res['violations'].extend(viols)
        viols = check_reduction_caller()
        res['evaluations'] += len(REDUCTION_EXPRS)
        res['nontrivial'] += len(REDUCTION_EXPRS)
        core.bump(res['outcomes'], 'reduction-caller:' + ('ok' if not viols else 'violation'))
        res['violations'].extend(viols)
        for fn, n, lab in ((check_tokenlist_caller, len(TOKENLIST_EXPRS), 'tokenlist-caller'), (check_model_alias_caller, 8, 'model-alias-caller'),
                           (check_returned_list_history, 3, 'returned-list-history')):
            viols = fn()
            res['evaluations'] += n
            res['nontrivial'] += n
            core.bump(res['outcomes'], lab + ':' + ('ok' if not viols else 'violation'))
            res['violations'].extend(viols)
        viols = check_qualification_caller()
        res['evaluations'] += 4
        res['nontrivial'] += 4
        core.bump(res['outcomes'], 'qualification-caller:' + ('ok' if not viols else 'violation'))
        res['violations'].extend(viols)
        res['samples'] = [{'callers': 'Term(blob/simple)/EquationBlock.ReplaceTokensFromLookup, EquationParser.FindExactMatches, Sector._CreateFinalEquations',
                           'map': _CACHE['maps_full'][-1]}]
    else:
        exprs = (full if unit['set'] == 'full' else red)[unit['start']:unit['start'] + unit['n']]
        maps = _CACHE['maps_full'] if unit['set'] == 'full' else _CACHE['maps_red']
        for tokens in exprs:
            tokens = list(tokens)
            spellings = [compact(tokens), '  ' + ' '.join(tokens) + ' ']
            names = set(t for t in tokens if NAME_RE.match(t))
            for si, text in enumerate(spellings):
                for m in maps:
                    # the padded spelling is only paired with maps that touch the expression (keeps the product in bounds)
                    touches = bool(names & set(m))
                    if si == 1 and not touches:
                        continue
                    case = {'kind': 'expr', 'tokens': tokens, 'text': text, 'map': m}
                    v = check_pair(tokens, text, m, case)
                    res['evaluations'] += 1
                    if touches:
                        res['nontrivial'] += 1
                    if v:
                        res['violations'].append(v)
                        core.bump(res['outcomes'], 'violation')
                    else:
                        core.bump(res['outcomes'], 'ok-%dtok' % len(tokens))
            dig.add(tuple(tokens))
        if exprs:
            res['samples'] = [{'expression': compact(list(exprs[-1])), 'maps': len(maps)}]
    best = {}
    for v in res['violations']:
        best.setdefault(v['key'], v)
    res['violations'] = list(best.values())
    res['digest'] = dig.hex()
    return res


def replay(case):
    if case['kind'] == 'qualification-caller':
        return [v for v in check_qualification_caller() if v['case']['row'] == case['row']][:1]
    if case['kind'] == 'returned-list-history':
        return [v for v in check_returned_list_history() if v['case']['expr'] == case['expr']][:1]
    if case['kind'] == 'tokenlist-caller':
        return [v for v in check_tokenlist_caller() if v['case']['expr'] == case['expr']][:1]
    if case['kind'] == 'model-alias-caller':
        return [v for v in check_model_alias_caller() if v['case']['form'] == case['form']][:1]
    if case['kind'] == 'reduction-caller':
        return [v for v in check_reduction_caller() if v['case']['expr'] == case['expr']][:1]
    if case['kind'] == 'callers':
        vs = check_callers(case['map'], {'kind': 'callers', 'map': case['map']})
        return vs[:1]
    v = check_pair(case['tokens'], case['text'], case['map'], case)
    return [v] if v else []
