"""
C14 - equation text is classified faithfully; comments are inert.

Line-form grammar: every order of the endogenous-section lines, three spacings, three lag spellings, with a hostile
comment text attached to every line in turn; the real EquationParser's lists are compared with those predicted by
the independent reader (mc/exact.read_block, which strips the comment first); the block with comments and the
block with every comment removed must parse to the same lists and solve to the same series; descriptions and long
names pushed through Model must not change the solution.
"""
import itertools

from mc import core, exact

core.setup_repo_path()
from sfc_models.equation_parser import EquationParser  # noqa
from sfc_models.equation_solver import EquationSolver  # noqa
from sfc_models.models import Model, Country  # noqa
from sfc_models.sector import Market  # noqa
from sfc_models.sector_definitions import ConsolidatedGovernment, Household, FixedMarginBusiness, TaxFlow  # noqa

ID = 'C14'
LEVEL = 'exploration'
RULE = ('(1) all permutations of the endogenous-section lines {2 simultaneous, lag, user of the lag, initial condition, variable whose '
        'name ends in 0 with its initial condition, run parameters, pure comment lines (some containing "="), malformed lines} x spacing '
        '{none, single, tabs} x lag spelling {X(k-1), X(t-1), X (k -1 )} x user time variable {none, t defined}; (2) one hostile '
        'comment from 14 texts attached to each line in turn (pairs in thorough); (3) Model descriptions / long names from the same texts. '
        'Oracle: lists equal to the independent classification (RHS compared whitespace-free, else by exact value), malformed lines reported, '
        't supplied iff absent, comment-free twin parses and solves identically; non-trivial = blocks containing a comment, a malformed '
        'line or a non-default order')
ASSUMPTIONS = [
    'a comment-only line containing the word "exogenous" IS the section marker (that is how Model writes it); hostile texts are attached '
    'as trailing comments of equation lines, pure comment lines use texts without the marker word',
    'outside the alphabet: lags embedded in larger expressions, other lag spacings, variable names containing the marker word or "(0)"',
]
BOUNDS = {'quick': {'permuted_lines': 6, 'comments_per_block': 1}, 'thorough': {'permuted_lines': 7, 'comments_per_block': 2}}

HOSTILE = ['plain', 'a = b', '## x', '42', 'Exogenous spending', 'not exogenous', 'MaxTime = 9', 'x(0) = 3', 'y(k-1)',
           'EXOGENOUS', 'x = 1 # y = 2', '(0)', 'Err_Tolerance = 5', '= =',
           'pasted\x0by(0) = 100', 'page\x0cMaxTime = 9', 'cr\rx = 7'] 
PURE_COMMENTS = ['# just a remark', '# c = 0.6*yd', '# h(0) = 99.', '# MaxTime = 50', '#', '   # indented z = 3']

# (kind, lhs, rhs)
LINES = {
    'S1': ('eq', 'x', '.5*y + 1'),
    'S2': ('eq', 'y', '.25*x + g'),
    'LAG': ('lag', 'LAG_x', 'x'),
    'USE': ('eq', 'u', 'LAG_x + 1'),
    'IC': ('ic', 'x', '5.'),
    'Y0': ('eq', 'y0', '.5*y0 + 2'),
    'ICY0': ('ic', 'y0', '3.'),
    'K10': ('eq', 'n', 'x + y0'),
    'T': ('eq', 't', 'LAG_t + 1.'),
    'LAGT': ('lag', 'LAG_t', 't'),
    'AGE': ('eq', 'ag', 't-10. + x'),            # arithmetic on the time axis that looks like the tail of a lag spelling
    'AGK': ('eq', 'ak', '2*k-1 + y'),
    'TU': ('eq', 't', '1950. + k'),              # user-supplied time axis
    'CAPT': ('eq', 'T', '.2*x'),                 # taxes: differs from the time variable only by case
    'MT': ('param', 'MaxTime', '2'),
    'ET': ('param', 'Err_Tolerance', '1e-6'),
    'C0': ('pure', PURE_COMMENTS[0], ''),
    'C1': ('pure', PURE_COMMENTS[1], ''),
    'C2': ('pure', PURE_COMMENTS[2], ''),
    'C3': ('pure', PURE_COMMENTS[3], ''),
    'C5': ('pure', PURE_COMMENTS[5], ''),
    'BLANK': ('pure', '', ''),
    'BAD1': ('bad', 'oops', ''),
    'BAD2': ('bad', 'w = 3 = y', ''),
    'BAD3': ('bad', 'q', ''),
    'BAD4': ('bad', 'w == 5', ''),
    'BAD5': ('bad', 'v = 5 =', ''),
    'BAD6': ('bad', '= w = 5', ''),
}
LAGSP = ['(k-1)', '(t-1)', ' (k -1 )']
SPACINGS = ['none', 'single', 'tabs']


def render(lid, spacing, lagsp, comment=None):
    kind, lhs, rhs = LINES[lid]
    if kind in ('pure', 'bad'):
        s = lhs
        if kind == 'bad' and comment is not None:
            s += ' # ' + comment
        return s
    if kind == 'lag':
        rhs_t = rhs + lagsp
    else:
        rhs_t = rhs
    if kind == 'ic':
        lhs = lhs + '(0)'
    if spacing == 'none':
        s = lhs + '=' + (rhs_t if kind == 'lag' else rhs_t.replace(' ', ''))
    elif spacing == 'single':
        s = lhs + ' = ' + rhs_t
    else:
        s = '\t' + lhs + '\t =  ' + (rhs_t if kind == 'lag' else rhs_t.replace(' ', '  ')) + ' \t'
    if comment is not None:
        s += ' # ' + comment
    return s


def build_text(order, spacing, lagsp, comments=None, marker='# Exogenous Variables', exo_comment=None):
    comments = comments or {}
    lines = [render(l, spacing, lagsp, comments.get(l)) for l in order]
    lines.append(marker)
    ex = 'g = [1., 2., 3., 4.]' if spacing != 'none' else 'g=[1.,2.,3.,4.]'
    if exo_comment is not None:
        ex += ' # ' + exo_comment
    lines.append(ex)
    return '\n'.join(lines)


def norm(s):
    return ''.join(str(s).split())


def same_rhs(a, b):
    if norm(a) == norm(b):
        return True
    names = sorted(set(exact.names_in(a)) | set(exact.names_in(b)))
    try:
        from fractions import Fraction
        for base in (3, 11):
            val = dict((n, Fraction(base + 2 * i, 5 + i)) for i, n in enumerate(names))
            if exact.eval_at(a, val) != exact.eval_at(b, val):
                return False
        return True
    except Exception:
        return False


def same_pairs(got, want):
    got = sorted((str(a), str(b)) for a, b in got)
    want = sorted((str(a), str(b)) for a, b in want)
    if len(got) != len(want):
        return False
    for (a, ra), (b, rb) in zip(got, want):
        if a != b or not same_rhs(ra, rb):
            return False
    return True


OTHER_BLOCK = 'aa = 2*bb + 1\nbb = aa(k-1)\nee = aa\nff = ee + 1\ncc(0) = 7.\noops again\nMaxTime = 9\nErr_Tolerance = 1e-3\n# exogenous\ndd = [1., 2.]'


def classify_check(text, case, reuse=False):
    """Compare the real parser with the independent reader. Returns list of violations."""
    viols = []

    def V(key, what):
        viols.append(core.violation(key, what, case))
    want = exact.read_block(text)
    p = EquationParser()
    try:
        if reuse:
            # the same parser object has parsed another block before: nothing of it may remain
            p.ParseString(OTHER_BLOCK)
            p.GenerateTokenList()
            p.EquationReduction()
        msg = p.ParseString(text)
    except Exception as e:
        V('parser-raises:' + type(e).__name__, 'ParseString raised %r' % (e,))
        return viols
    wendo = list(want.endo)
    has_t = any(v in ('t', 't_minus_1') for v, r in want.endo + want.exo) or any(l in ('t', 't_minus_1') for l, s in want.lagged)
    if not has_t:
        wendo.append(('t', 'k'))
    if not same_pairs(p.Endogenous, wendo):
        V('simultaneous-list-wrong', 'Endogenous = %r expected %r' % (sorted(p.Endogenous), sorted(wendo)))
    if not same_pairs(p.Lagged, want.lagged):
        V('lagged-list-wrong', 'Lagged = %r expected %r' % (sorted(p.Lagged), sorted(want.lagged)))
    if not same_pairs(p.Exogenous, want.exo):
        V('exogenous-list-wrong', 'Exogenous = %r expected %r' % (p.Exogenous, want.exo))
    if not same_pairs(p.InitialConditions.items(), want.ic.items()):
        V('initial-conditions-wrong', 'InitialConditions = %r expected %r' % (sorted(p.InitialConditions.items()), sorted(want.ic.items())))
    wmt = want.maxtime if want.maxtime is not None else 0
    if p.MaxTime != wmt:
        V('maxtime-wrong', 'MaxTime = %r expected %r' % (p.MaxTime, wmt))
    wtol = want.tol if want.tol is not None else '1e-8'
    if float(p.Err_Tolerance) != float(wtol):
        V('tolerance-wrong', 'Err_Tolerance = %r expected %r' % (p.Err_Tolerance, wtol))
    # the parser's own bookkeeping must describe this block only
    allnames = set(v for v, r in wendo) | set(l for l, s_ in want.lagged) | set(v for v, r in want.exo) | set(x + '(0)' for x in want.ic)
    if want.maxtime is not None:
        allnames.add('MaxTime')
    if want.tol is not None:
        allnames.add('Err_Tolerance')
    if set(p.AllEquations) != allnames:
        V('all-equations-wrong', 'AllEquations lists %r, the block defines %r' % (sorted(set(p.AllEquations) ^ allnames), sorted(allnames)))
    if dict(p.Tokens) != {}:
        V('tokens-not-reset-after-parse', 'Tokens = %r right after ParseString' % (sorted(p.Tokens),))
    if list(p.Decoration) != []:
        V('decoration-not-empty-after-parse', 'Decoration = %r right after ParseString' % (p.Decoration,))
    for bad in want.malformed:
        if bad not in msg:
            V('malformed-line-not-reported', 'line %r not mentioned in the parser message %r' % (bad, msg[:120]))
    return viols


def solve_text(text):
    import warnings
    with warnings.catch_warnings():
        warnings.simplefilter('ignore')
        s = EquationSolver(text)
        s.SolveEquation()
    return dict((k, list(v)) for k, v in s.TimeSeries.items())


def strip_comments(text):
    out = []
    for line in text.split('\n'):
        code, comment = exact.split_comment(line)
        if code.strip() == '' and comment is not None and 'exogenous' in comment.lower():
            out.append(line)       # the marker line stays
        elif code.strip() == '':
            continue
        else:
            out.append(code)
    return '\n'.join(out)


def full_check(text, case, solve=True):
    viols = classify_check(text, case)
    if viols:
        return viols
    viols = classify_check(text, dict(case, reused_parser=True), reuse=True)
    if viols:
        for v in viols:
            v['key'] = 'reused-parser:' + v['key']
        return viols
    twin = strip_comments(text)
    if twin != text:
        v2 = classify_check(twin, dict(case, twin=True))
        if v2:
            return v2
    if solve:
        try:
            a = solve_text(text)
        except Exception as e:
            return [core.violation('commented-block-fails:' + type(e).__name__, 'solve raised %r' % (e,), case)]
        b = solve_text(twin)
        if a != b:
            d = [k for k in sorted(set(a) | set(b)) if a.get(k) != b.get(k)]
            return [core.violation('comments-change-solution', 'series differ from the comment-free twin: %s' % d[:5], case)]
    return []


# ---------------------------------------------------------------------------------------------
# Model descriptions

def model_series(desc, long_name):
    m = Model()
    c = Country(m, 'CO', long_name=long_name)
    gov = ConsolidatedGovernment(c, 'GOV', long_name=long_name)
    hh = Household(c, 'HH', long_name=long_name)
    bus = FixedMarginBusiness(c, 'BUS', long_name=long_name)
    TaxFlow(c, 'TF', long_name=long_name, taxrate=.2)
    Market(c, 'LAB', long_name=long_name)
    Market(c, 'GOOD', long_name=long_name)
    gov.AddVariable('DEM_GOOD', desc, '0.0')
    hh.AddVariable('EXTRA', desc, '2*AfterTax')
    gov.SetExogenous('DEM_GOOD', '[20.,]*5')
    hh.AddInitialCondition('F', 3.)
    m.AddGlobalEquation('GLOB', desc, 'HH__F + 1')
    m.MaxTime = 3
    m.main()
    return dict((k, list(v)) for k, v in m.EquationSolver.TimeSeries.items())


# ---------------------------------------------------------------------------------------------

def endogenous_sets(tier):
    n = BOUNDS[tier]['permuted_lines']
    base = ['S1', 'S2', 'LAG', 'USE', 'IC', 'MT']
    sets = [base[:n]]
    sets.append(['S1', 'S2', 'Y0', 'ICY0', 'K10', 'MT'][:n])
    sets.append(['S1', 'S2', 'T', 'LAGT', 'ET', 'MT'][:n])
    sets.append(['S1', 'S2', 'C1', 'BAD1', 'CAPT', 'MT'][:n])
    sets.append(['S1', 'S2', 'BAD2', 'C3', 'C5', 'BLANK'][:n] + ['MT'])
    sets.append(['S1', 'S2', 'BAD3', 'IC', 'ET', 'LAG'][:n])       # no MaxTime line: the horizon stays at its default 0
    sets.append(['S1', 'S2', 'BAD4', 'BAD5', 'BAD6', 'MT'][:n] + (['MT'] if n < 6 else []))
    sets.append(['S1', 'S2', 'AGE', 'AGK', 'TU', 'LAG'][:n] + ['MT'])
    sets.append(['S1', 'S2', 'BAD2', 'BAD1', 'BAD3', 'MT'][:n])     # several malformed lines of different kinds in one block: each one is reported
    if n >= 7:
        sets.append(['S1', 'S2', 'LAG', 'USE', 'IC', 'C1', 'MT'])
    return sets


def units(tier):
    out = []
    for si, lines in enumerate(endogenous_sets(tier)):
        perms = list(itertools.permutations(lines))
        for i in range(0, len(perms), 120):
            out.append({'part': 'orders', 'set': si, 'chunk': i})
    for si in range(len(endogenous_sets(tier))):
        out.append({'part': 'comments', 'set': si})
    out.append({'part': 'markers'})
    out.append({'part': 'model'})
    return out


def run_unit(unit, tier):
    res = core.new_result()
    dig = core.Digest()
    part = unit['part']
    if part == 'orders':
        lines = endogenous_sets(tier)[unit['set']]
        perms = list(itertools.permutations(lines))[unit['chunk']:unit['chunk'] + 120]
        for perm in perms:
            for spacing in SPACINGS:
                for lagsp in (LAGSP if 'LAG' in lines or 'LAGT' in lines else LAGSP[:1]):
                    text = build_text(perm, spacing, lagsp)
                    case = {'part': 'orders', 'order': list(perm), 'spacing': spacing, 'lag': lagsp}
                    dig.add((perm, spacing, lagsp))
                    viols = full_check(text, case, solve=(spacing == 'single'))
                    res['evaluations'] += 1
                    res['nontrivial'] += 1
                    core.bump(res['outcomes'], 'orders:' + ('ok' if not viols else 'violation'))
                    res['violations'].extend(viols[:1])
        res['samples'] = [{'block': build_text(perms[-1], 'single', LAGSP[2])}]
    elif part == 'comments':
        lines = endogenous_sets(tier)[unit['set']]
        ncom = BOUNDS[tier]['comments_per_block']
        targets = [l for l in lines if LINES[l][0] not in ('pure',)] + ['EXO']
        for spacing in SPACINGS:
            for lagsp in LAGSP[:2]:
                for combo in itertools.combinations(targets, ncom):
                    for texts in itertools.product(HOSTILE, repeat=ncom):
                        comments = dict(zip(combo, texts))
                        exo_c = comments.pop('EXO', None)
                        text = build_text(lines, spacing, lagsp, comments, exo_comment=exo_c)
                        case = {'part': 'comments', 'set': unit['set'], 'spacing': spacing, 'lag': lagsp,
                                'comments': dict(zip(combo, texts))}
                        dig.add((unit['set'], spacing, lagsp, combo, texts))
                        viols = full_check(text, case, solve=True)
                        res['evaluations'] += 1
                        res['nontrivial'] += 1
                        core.bump(res['outcomes'], 'comments:' + ('ok' if not viols else 'violation'))
                        res['violations'].extend(viols[:1])
        res['samples'] = [{'block': build_text(lines, 'single', LAGSP[0], {lines[1]: 'Exogenous spending'})}]
    elif part == 'markers':
        lines = ['S1', 'S2', 'LAG', 'USE', 'IC', 'MT']
        for marker in ('# Exogenous Variables', 'exogenous', 'Exogenous = crunk', '   # the EXOGENOUS block', '#exogenous',
                       'Exogenous Variables # start of the section', 'exogenous#x', ' EXOGENOUS  # = 3'):
            for spacing in SPACINGS:
                text = build_text(lines, spacing, LAGSP[0], marker=marker)
                case = {'part': 'markers', 'marker': marker, 'spacing': spacing}
                dig.add((marker, spacing))
                viols = full_check(text, case, solve=True)
                res['evaluations'] += 1
                res['nontrivial'] += 1
                core.bump(res['outcomes'], 'markers:' + ('ok' if not viols else 'violation'))
                res['violations'].extend(viols[:1])
        res['samples'] = [{'marker spellings': 8}]
        for line in PARAM_LINES + ['MaxTime = 4']:
            for position in ('first', 'last', 'after-marker'):
                for trailing in (False, True):
                    dig.add(('params', line, position, trailing))
                    v = check_param_line(line, position, trailing)
                    res['evaluations'] += 1
                    res['nontrivial'] += 1
                    core.bump(res['outcomes'], 'params:' + ('ok' if not v else 'violation'))
                    if v:
                        res['violations'].append(v)
    else:
        base = model_series('', '')
        for desc in HOSTILE + ['# Exogenous Variables', 'MaxTime = 1']:
            for where in ('desc', 'long_name', 'both'):
                case = {'part': 'model', 'text': desc, 'where': where}
                dig.add(('model', desc, where))
                res['evaluations'] += 1
                res['nontrivial'] += 1
                try:
                    got = model_series(desc if where != 'long_name' else '', desc if where != 'desc' else '')
                except Exception as e:
                    res['violations'].append(core.violation('description-breaks-model:' + where, 'description %r (%s): %s: %s' % (
                        desc, where, type(e).__name__, str(e)[:120]), case))
                    core.bump(res['outcomes'], 'model:raises')
                    continue
                if got != base:
                    d = [k for k in sorted(set(got) | set(base)) if got.get(k) != base.get(k)]
                    res['violations'].append(core.violation('description-changes-solution:' + where, 'description %r (%s) changes %s' % (desc, where, d[:4]), case))
                    core.bump(res['outcomes'], 'model:differs')
                else:
                    core.bump(res['outcomes'], 'model:same')
        res['samples'] = [{'model descriptions': HOSTILE[:4]}]
    best = {}
    for v in res['violations']:
        best.setdefault(v['key'], v)
    res['violations'] = list(best.values())
    res['digest'] = dig.hex()
    return res


PARAM_LINES = ['MaxTime = 2.5', 'MaxTime = 1e-3', 'MaxTime = 7.999', 'MaxTime = CAT', 'MaxTime = 3 4', 'MaxTime = 2.0', 'MaxTime = 0x10']


def check_param_line(line, position, trailing):
    """A run-parameter line whose value is not an integer literal is malformed: refused with an exception or named in the
    parser's message - never read as some other horizon."""
    case = {'part': 'params', 'line': line, 'position': position, 'trailing': trailing}
    body = ['x = .5*x + 1', 'y = x + 1']
    l = line + ('  # horizon' if trailing else '')
    lines = [l] + body if position == 'first' else (body + [l] if position == 'last' else body + ['exogenous', 'g = [1., 2., 3.]', l])
    p = EquationParser()
    try:
        msg = p.ParseString('\n'.join(lines))
    except Exception:
        return None                      # refused
    value = line.split('=')[1].strip()
    if value in (msg or ''):
        return None                      # reported
    try:
        ok = (str(int(value)) == value)
    except ValueError:
        ok = False
    if ok and p.MaxTime == int(value):
        return None
    return core.violation('malformed-run-parameter-silently-read', 'line %r gave MaxTime = %r with the message %r' % (line, p.MaxTime, (msg or '')[:80]), case)


def replay(case):
    part = case['part']
    if part == 'params':
        v = check_param_line(case['line'], case['position'], case['trailing'])
        return [v] if v else []
    if part == 'orders':
        return full_check(build_text(case['order'], case['spacing'], case['lag']), case, solve=True)[:1]
    if part == 'comments':
        tier = 'thorough' if len(case['comments']) > 1 else 'quick'
        lines = endogenous_sets(tier)[case['set']]
        comments = dict(case['comments'])
        exo_c = comments.pop('EXO', None)
        return full_check(build_text(lines, case['spacing'], case['lag'], comments, exo_comment=exo_c), case, solve=True)[:1]
    if part == 'markers':
        return full_check(build_text(['S1', 'S2', 'LAG', 'USE', 'IC', 'MT'], case['spacing'], LAGSP[0], marker=case['marker']), case)[:1]
    base = model_series('', '')
    try:
        got = model_series(case['text'] if case['where'] != 'long_name' else '', case['text'] if case['where'] != 'desc' else '')
    except Exception as e:
        return [core.violation('description-breaks-model:' + case['where'], repr(e), case)]
    if got != base:
        return [core.violation('description-changes-solution:' + case['where'], 'series differ', case)]
    return []
