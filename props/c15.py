"""
C15 - an accepted initial steady state really is steady.

All one- and two-state recursive systems of the alphabet (stable, unstable, drifting, oscillating, positive /
negative / sign-changing, optionally time-dependent, with sign-flipped decorative and alias read-outs) x search
horizon x steady-state tolerance x excluded-variable list.  If the real CalculateInitialSteadyState() returns, one
more period is solved from the installed k=0 values with exogenous inputs frozen and no non-excluded variable may
move; otherwise it must raise NoEquilibriumError/ValueError.  The solver's equations, exogenous paths and horizon
must be untouched in both outcomes.
"""
import copy
import itertools

from mc import core
from mc.blocks import Block

core.setup_repo_path()
from sfc_models.equation_solver import EquationSolver, NoEquilibriumError  # noqa

ID = 'C15'
LEVEL = 'exploration'
RULE = ('systems x = a*LAG_x + c*LAG_y + b (+ 0.1*t), y = a2*LAG_y + b2 with (a,c) in {0,.5,.9,1,-.5,-1,1.05}^2 (thorough: 12 values each; one-state systems also with a in {60,-60,1e200}: overflow inside the search horizon), b in '
        '{0,1,-1,10,-10}, initial values in {0,5,-5}, read-outs z=-x (decorative) and al=x (alias), exogenous shift g (rising path, or a step after k=0 that then stays put beyond the search horizon); x search horizon '
        '{1,2,3,20,200} x tolerance {1e-4,1e-3,1e-9} x excluded list {default, +z (a read-out nothing depends on)}; oracle: after acceptance one more SolveStep with exogenous '
        'frozen at k=0 moves every non-excluded variable by <= 2 tol (absolute or relative; violated only if both >= 20 tol), rejection is '
        'NoEquilibriumError/ValueError, Parser lists / exogenous series / MaxTime deep-equal to the snapshot; non-trivial = accepted searches')
ASSUMPTIONS = [
    'the within-period block is acyclic, so every step is computed exactly by the sweep and the solver tolerance plays no role; the one cyclic family sets ParameterErrorTolerance = 1e-8, the documented way of asking for per-period accuracy',
    'either the absolute or the relative measure may be used by the implementation (the weaker is demanded)',
    'only variables nothing else depends on are put on the excluded list (an excluded variable is not installed at k=0, so anything reading it is outside the guarantee)',
]
BOUNDS = {'quick': {'two_state_horizons': [1, 2, 3, 20], 'one_state_horizons': [1, 2, 3, 20, 200]},
          'thorough': {'two_state_horizons': [1, 2, 3, 20, 200], 'one_state_horizons': [1, 2, 3, 5, 20, 200]}}

AC = [0., .5, .9, 1., -.5, -1., 1.05]
AC_THOROUGH = AC + [.25, .75, -.9, 1.01, -1.05]
BS = [0., 1., -1., 10., -10.]
INITS = [0., 5., -5.]
TOLS = [1e-4, 1e-3, 1e-9]


def one_state(a, b, x0, timedep, shift):
    rhs = '%r*LAG_x + %r' % (a, b)
    if timedep:
        rhs += ' + 0.1*t'
    if shift:
        rhs += ' + g'
    exos = [('g', '[2., 3., 4., 5., 6.]')] if shift else []
    if shift == 'step':
        # an input that steps after k=0 and then stays put for longer than the search horizons: the search must use g(0)
        exos = [('g', '[2.] + [4.]*30')]
    # (k_w, t_v: read-outs whose names merely begin like the excluded time names; they are ordinary variables)
    return Block([('x', rhs), ('z', '-x'), ('al', 'x'), ('u', '2*al'), ('k_w', '3*x'), ('t_v', 'LAG_kw + 1')],
                 lags=[('LAG_x', 'x'), ('LAG_kw', 'k_w')], ics={'x': repr(x0)},
                 exos=exos, maxtime=30 if shift == 'step' else 3)


def bare_state(kind, a, b, x0):
    """One state and nothing else (no read-outs): linear a*LAG_x + b, or quadratic a*LAG_x*LAG_x + b."""
    rhs = '%r*LAG_x + %r' % (a, b) if kind == 'lin' else '%r*LAG_x*LAG_x + %r' % (a, b)
    return Block([('x', rhs)], lags=[('LAG_x', 'x')], ics={'x': repr(x0)}, maxtime=3)


def two_state(a, c, b, x0, a2, b2, y0):
    return Block([('x', '%r*LAG_x + %r*LAG_y + %r' % (a, c, b)), ('y', '%r*LAG_y + %r' % (a2, b2)), ('z', '-x - y')],
                 lags=[('LAG_x', 'x'), ('LAG_y', 'y')], ics={'x': repr(x0), 'y': repr(y0)}, maxtime=3)


def cyclic_state(rho, g, a, x0):
    """A within-period loop (y feeds itself) next to a lagged state; the caller asks for tight per-period accuracy through
    ParameterErrorTolerance, so every period - also inside the search - has to be solved to that accuracy."""
    return Block([('y', '%r*y + %r*g' % (rho, 1 - rho)), ('bal', '-y'), ('x', '%r*LAG_x + 1.' % a)], lags=[('LAG_x', 'x')],
                 ics={'x': repr(x0)}, exos=[('g', '[%r]*4' % g)], maxtime=3)


def snapshot(s):
    p = s.Parser
    return copy.deepcopy({
        'endo': list(p.Endogenous), 'lag': list(p.Lagged), 'exo': [(v, e) for v, e in p.Exogenous], 'dec': list(p.Decoration),
        'ic': dict(p.InitialConditions), 'maxtime': p.MaxTime, 'tol': p.Err_Tolerance, 'smax': s.MaxTime,
        'exoseries': dict((v, list(s.TimeSeries[v])) for v, e in p.Exogenous),
    })


def check(block, T, tol, excl_x, case):
    s = EquationSolver(block.text())
    if case.get('pet') is not None:
        s.ParameterErrorTolerance = case['pet']
    s.ParameterInitialSteadyStateMaxTime = T
    s.ParameterInitialSteadyStateErrorToler = tol
    if excl_x:
        s.ParameterInitialSteadyStateExcludedVariables = ['t', 'u' if any(v == 'u' for v, r in block.eqs) else 'z']
    s.ExtractVariableList()
    s.SetInitialConditions()
    before = snapshot(s)
    err = None
    try:
        s.CalculateInitialSteadyState()
    except Exception as e:
        err = e
    viols = []
    after = snapshot(s)
    if after != before:
        d = [k for k in before if before[k] != after[k]]
        viols.append(core.violation('search-mutates-solver:' + ','.join(d), 'solver state changed by the search: %s' % d, case))
    if err is not None:
        if not isinstance(err, ValueError):
            viols.append(core.violation('wrong-exception:' + type(err).__name__, 'raised %s: %s' % (type(err).__name__, str(err)[:100]), case))
        return 'rejected:' + type(err).__name__, viols, 0
    # accepted: one more period with exogenous frozen at k=0
    excluded = set(['k'] + list(s.ParameterInitialSteadyStateExcludedVariables))
    for v, e in s.Parser.Exogenous:
        s.TimeSeries[v] = [s.TimeSeries[v][0]] * (s.Parser.MaxTime + 1)
    v0 = dict((v, x[0]) for v, x in s.TimeSeries.items())
    import math
    for v in sorted(v0):
        if v not in excluded and isinstance(v0[v], float) and not math.isfinite(v0[v]):
            viols.append(core.violation('accepted-nonfinite-state', '%s installed as %r by an accepted search' % (v, v0[v]), case))
            return 'accepted', viols, 0
    try:
        s.SolveStep(1)
    except Exception as e:
        viols.append(core.violation('next-step-fails:' + type(e).__name__, 'accepted state cannot be stepped: %r' % (e,), case))
        return 'accepted', viols, 0
    indet = 0
    for v in sorted(v0):
        if v in excluded:
            continue
        a0, a1 = v0[v], s.TimeSeries[v][1]
        d = abs(a1 - a0)
        rel = d / abs(a0) if a0 != 0 else float('inf')
        if d <= 2 * tol or rel <= 2 * tol:
            continue
        if d >= 20 * tol and rel >= 20 * tol:
            sign = 'negative' if a0 < 0 else ('positive' if a0 > 0 else 'zero')
            viols.append(core.violation('accepted-nonsteady:%s-series' % sign,
                                        '%s accepted at %r but the next period gives %r (tolerance %g)' % (v, a0, a1, tol), case))
            break
        indet += 1
    return 'accepted', viols, indet


def units(tier):
    out = []
    grid = AC if tier == 'quick' else AC_THOROUGH
    out.append({'part': 'cyclic'})
    for a in list(grid) + [60., -60., 1e200]:
        out.append({'part': 'bare', 'a': a})
        out.append({'part': 'one', 'a': a})
        for c in grid:
            out.append({'part': 'two', 'a': a, 'c': c})
    return out


def run_unit(unit, tier):
    res = core.new_result()
    dig = core.Digest()
    b_ = BOUNDS[tier]
    cases = []
    if unit['part'] == 'cyclic':
        for rho, g, a, x0 in itertools.product([.5, .9, .95], [5e4, -5e4, 3.], [0., .5], [0., 5.]):
            blk = cyclic_state(rho, g, a, x0)
            for T in (3, 10, 20):
                cases.append((blk, T, {'sys': 'cyclic', 'rho': rho, 'g': g, 'a': a, 'x0': x0, 'pet': 1e-8}))
    elif unit['part'] == 'bare':
        for kind, b, x0 in itertools.product(('lin', 'quad'), BS, INITS):
            blk = bare_state(kind, unit['a'], b, x0)
            for T in b_['one_state_horizons']:
                cases.append((blk, T, {'sys': 'bare', 'kind': kind, 'a': unit['a'], 'b': b, 'x0': x0}))
    elif unit['part'] == 'one':
        for b, x0, td, sh in itertools.product(BS, INITS, (False, True), (False, True, 'step')):
            blk = one_state(unit['a'], b, x0, td, sh)
            for T in b_['one_state_horizons']:
                cases.append((blk, T, {'sys': 'one', 'a': unit['a'], 'b': b, 'x0': x0, 'timedep': td, 'shift': sh}))
    else:
        for b, x0, a2, b2, y0 in itertools.product([0., 1., -10.], [0., -5.], [.5, 1., -1.], [0., 1.], [0., 5.]):
            blk = two_state(unit['a'], unit['c'], b, x0, a2, b2, y0)
            for T in b_['two_state_horizons']:
                cases.append((blk, T, {'sys': 'two', 'a': unit['a'], 'c': unit['c'], 'b': b, 'x0': x0, 'a2': a2, 'b2': b2, 'y0': y0}))
    for blk, T, desc in cases:
        for tol in TOLS:
            for excl in (False, True):
                case = dict(desc, T=T, tol=tol, exclude_z=excl)
                dig.add(sorted(case.items()))
                outcome, viols, indet = check(blk, T, tol, excl, case)
                res['evaluations'] += 1
                if outcome == 'accepted':
                    res['nontrivial'] += 1
                res['indeterminate'] += indet
                core.bump(res['outcomes'], '%s:%s' % (unit['part'], outcome))
                res['violations'].extend(viols[:1])
    res['samples'] = [{'system': cases[-1][0].text(), 'search horizon': cases[-1][1]}]
    best = {}
    for v in res['violations']:
        best.setdefault(v['key'], v)
    res['violations'] = list(best.values())
    res['digest'] = dig.hex()
    return res


def replay(case):
    if case['sys'] == 'cyclic':
        blk = cyclic_state(case['rho'], case['g'], case['a'], case['x0'])
    elif case['sys'] == 'bare':
        blk = bare_state(case['kind'], case['a'], case['b'], case['x0'])
    elif case['sys'] == 'one':
        blk = one_state(case['a'], case['b'], case['x0'], case['timedep'], case['shift'])
    else:
        blk = two_state(case['a'], case['c'], case['b'], case['x0'], case['a2'], case['b2'], case['y0'])
    return check(blk, case['T'], case['tol'], case['exclude_z'], case)[1][:1]
