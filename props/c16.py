"""
C16 - reading results never changes them.

History BFS over retrieval / rendering / caller-side-mutation calls on (i) a Model whose public EquationSolver has
solved a block (with a traced step and a steady-state run for the 'step' and 'initial' groups) or was stepped
period by period and stopped half-way (stored series of unequal length), (ii) a bare
EquationSolver / TimeSeriesHolder and (iii) a BaseSolver subclass instance.  Reference model: a deep snapshot of all
stored holders taken right after solving; expected return value = snapshot[name][:cutoff+1] minus the first point
under suppression.  After EVERY operation the stored holders must still equal the snapshot.
"""
import copy
import itertools

from mc import core

core.setup_repo_path()
from sfc_models.models import Model  # noqa
from sfc_models.equation_solver import EquationSolver  # noqa
from sfc_models.base_solver import BaseSolver  # noqa
from sfc_models.utils import TimeSeriesHolder  # noqa

ID = 'C16'
LEVEL = 'model_checking'
RULE = ('states = (flags cutoff/suppression, whether the caller still holds a returned list); transitions = one public call: '
        'GetTimeSeries(name in {x,k,missing}, cutoff in {None,0,2,10}, group in {main,step,initial}), set TimeSeriesCutoff {None,2,0}, set '
        'TimeSeriesSupressTimeZero {F,T}, mutate the list returned last (append/pop/clear/assign), GenerateCSVtext(fmt) on solver and holders, '
        'GetSeriesList() and mutation of the returned name list, creation and rendering of unrelated holders / a traced solver elsewhere in the process, BaseSolver.CreateCsvString(); all histories up to the depth bound replayed on '
        'freshly solved objects and (one level shallower) on a solver stepped half-way, whose stored series are of unequal length; oracle per transition: return value == reference, stored holders == snapshot, rendering == first rendering; '
        'non-trivial = histories containing a caller-side mutation or a flag change followed by a retrieval')
ASSUMPTIONS = [
    'the harness owns the objects: nothing else touches the solver between operations',
    'a missing series name must raise KeyError',
]
BOUNDS = {'quick': {'depth': 3}, 'thorough': {'depth': 4}}

BLOCK = 'x = .5*x + y + 1\ny = .25*x + 2\nz = x + y\nMaxTime = 4\nErr_Tolerance = 1e-6'


def fresh_model():
    m = Model()
    s = EquationSolver(BLOCK)
    s.TraceStep = 2
    s.ParameterSolveInitialSteadyState = True
    s.ParameterInitialSteadyStateMaxTime = 60
    m.EquationSolver = s
    s.SolveEquation()
    return m


STEP_BLOCK = 'x = .5*x + y + g\ny = .25*x + 2\nz = x + y\nexogenous\ng = [1., 2., 3., 4., 5.]\nMaxTime = 4\nErr_Tolerance = 1e-6'


def stepped_model():
    """A solver stepped period by period and stopped half-way: the stored series are of unequal length (the exogenous
    series and the time axis are complete, the solved ones are not)."""
    m = Model()
    s = EquationSolver(STEP_BLOCK)
    m.EquationSolver = s
    s.ExtractVariableList()
    s.SetInitialConditions()
    s.SolveStep(1)
    s.SolveStep(2)
    return m


def snap(m):
    s = m.EquationSolver
    return {'main': dict((k, list(v)) for k, v in s.TimeSeries.items()),
            'step': dict((k, list(v)) for k, v in s.TimeSeriesStepTrace.items()),
            'initial': dict((k, list(v)) for k, v in s.TimeSeriesInitialSteadyState.items())}


OPS = []
for name in ('x', 'k', 'nosuch'):
    for cutoff in (None, 0, 2, 10):
        OPS.append(['get', name, cutoff, 'main'])
for group in ('step', 'initial'):
    for cutoff in (None, 2):
        OPS.append(['get', 'x', cutoff, group])
OPS += [['cutoff', None], ['cutoff', 2], ['cutoff', 0], ['suppress', False], ['suppress', True]]
OPS += [['mutate', 'append'], ['mutate', 'pop'], ['mutate', 'clear'], ['mutate', 'assign']]
OPS += [['csv', 'solver', '%.5g'], ['csv', 'solver', '%.3f'], ['csv', 'main', '%.5g'], ['csv', 'step', '%e'], ['csv', 'initial', '%.5g']]
OPS += [['csv', 'solver', None], ['csv', 'main', None]]          # default format argument
OPS += [['serieslist', 'main'], ['mutate-names', 'clear'], ['mutate-names', 'reverse']]
OPS += [['elsewhere']]        # other holders / another traced solver are created and rendered elsewhere in the process


def run_history(hist, start='solved'):
    """Replay on a freshly solved (or half-way stepped) model. Returns violation or None."""
    case = {'target': 'model', 'history': hist}
    if start != 'solved':
        case['start'] = start
    m = fresh_model() if start == 'solved' else stepped_model()
    ref = snap(m)
    cutoff_flag = None
    suppress = False
    last = None
    last_names = None
    first_render = {}
    holders = {'main': lambda: m.EquationSolver.TimeSeries, 'step': lambda: m.EquationSolver.TimeSeriesStepTrace,
               'initial': lambda: m.EquationSolver.TimeSeriesInitialSteadyState}
    for i, op in enumerate(hist):
        what = 'step %d %r' % (i + 1, op)
        try:
            if op[0] == 'get':
                name, cutoff, group = op[1], op[2], op[3]
                eff = cutoff if cutoff is not None else cutoff_flag
                if name not in ref[group]:
                    try:
                        m.GetTimeSeries(name, cutoff=cutoff, group_of_series=group)
                    except KeyError:
                        pass
                    else:
                        return core.violation('missing-series-no-keyerror', what + ': no KeyError', case)
                else:
                    want = list(ref[group][name]) if eff is None else list(ref[group][name][:eff + 1])
                    if suppress:
                        want = want[1:]
                    got = m.GetTimeSeries(name, cutoff=cutoff, group_of_series=group)
                    if list(got) != want:
                        return core.violation('retrieval-wrong:' + flags(eff, suppress), '%s returned %r, expected %r' % (what, got, want), case)
                    last = got
            elif op[0] == 'cutoff':
                m.TimeSeriesCutoff = op[1]
                cutoff_flag = op[1]
            elif op[0] == 'suppress':
                m.TimeSeriesSupressTimeZero = op[1]
                suppress = op[1]
            elif op[0] == 'mutate':
                if last is not None:
                    if op[1] == 'append':
                        last.append(99.0)
                    elif op[1] == 'pop' and len(last):
                        last.pop(0)
                    elif op[1] == 'clear':
                        del last[:]
                    elif op[1] == 'assign' and len(last):
                        last[0] = -1.0
            elif op[0] == 'csv':
                fmt = op[2] if op[2] is not None else '%.5g'
                if op[1] != 'solver' and not ref[op[1]]:
                    continue        # nothing stored in that group (half-way stepped solver): rendering it is not part of the alphabet
                if op[1] == 'solver':
                    txt = m.EquationSolver.GenerateCSVtext(op[2]) if op[2] is not None else m.EquationSolver.GenerateCSVtext()
                    key = ('main', fmt)
                else:
                    txt = holders[op[1]]().GenerateCSVtext(op[2]) if op[2] is not None else holders[op[1]]().GenerateCSVtext()
                    key = (op[1], fmt)
                exp = render(ref[key[0]], fmt)
                if txt != exp:
                    return core.violation('rendering-not-faithful:' + op[1], '%s differs from the rendering of the snapshot: %r vs %r' % (
                        what, txt[:80], exp[:80]), case)
                if key in first_render and first_render[key] != txt:
                    return core.violation('rendering-not-repeatable', what + ': text differs from the first rendering', case)
                first_render[key] = txt
            elif op[0] == 'elsewhere':
                h = TimeSeriesHolder('year')
                h['year'] = [1., 2.]
                h['aa'] = [3., 4.]
                h.GenerateCSVtext()
                o2 = EquationSolver('p = .5*p + 1\nMaxTime = 2')
                o2.TraceStep = 1
                o2.SolveEquation()
                o2.GenerateCSVtext()
            elif op[0] == 'serieslist':
                last_names = holders[op[1]]().GetSeriesList()
                if sorted(last_names) != sorted(ref[op[1]].keys()):
                    return core.violation('series-list-wrong', '%s: %r' % (what, last_names), case)
            elif op[0] == 'mutate-names':
                if last_names is not None:
                    if op[1] == 'clear':
                        del last_names[:]
                    else:
                        last_names.reverse()
        except Exception as e:
            return core.violation('call-raises:%s:%s' % (op[0], type(e).__name__), '%s raised %r' % (what, e), case)
        now = snap(m)
        if now != ref:
            grp = [g for g in ref if now[g] != ref[g]]
            return core.violation('stored-results-changed:after-' + op[0], '%s changed the stored %s series' % (what, grp), case)
    return None


def flags(eff, suppress):
    return ('cutoff' if eff is not None else 'nocutoff') + ('+suppress' if suppress else '')


def render(series, fmt):
    """Reference rendering (the documented table format, written independently)."""
    prio = ['iteration', 'iteration_error', 'iteration_abs_change', 'k', 't']
    names = [n for n in prio if n in series] + sorted(n for n in series if n not in prio)
    if not names:
        return ''
    n = min(len(v) for v in series.values())
    out = '\t'.join(names) + '\n'
    for i in range(n):
        out += '\t'.join(fmt % (series[nm][i],) for nm in names) + '\n'
    return out


# BaseSolver target -----------------------------------------------------------------------------

class Gen(BaseSolver):
    def __init__(self, names):
        BaseSolver.__init__(self, list(names))
        self.t = [0., 1., 2.]
        self.a = [1.5, 2.5, 3.5]
        self.b = [7, 8, 9]


BS_OPS = [['csv'], ['read-varlist'], ['mutate-returned-varlist']]


def run_bs_history(order, hist):
    case = {'target': 'basesolver', 'varlist': order, 'history': hist}
    o = Gen(order)
    names0 = list(o.VariableList)
    first = None
    for i, op in enumerate(hist):
        try:
            if op[0] == 'csv':
                txt = o.CreateCsvString()
                head = txt.split('\n')[0].split('\t')
                if head[0] != 't' or sorted(head) != sorted(names0):
                    return core.violation('csvstring-header-wrong', 'step %d header %r' % (i + 1, head), case)
                if first is not None and txt != first:
                    return core.violation('csvstring-not-repeatable', 'step %d: second rendering differs: %r vs %r' % (i + 1, txt[:40], first[:40]), case)
                first = txt
            elif op[0] == 'read-varlist':
                if sorted(o.VariableList) != sorted(names0):
                    return core.violation('variable-list-changed', 'VariableList = %r' % (o.VariableList,), case)
        except Exception as e:
            return core.violation('call-raises:basesolver:' + type(e).__name__, 'step %d raised %r' % (i + 1, e), case)
        if sorted(o.VariableList) != sorted(names0) or o.t != [0., 1., 2.] or o.a != [1.5, 2.5, 3.5]:
            return core.violation('stored-results-changed:basesolver', 'after step %d VariableList=%r' % (i + 1, o.VariableList), case)
    return None


# ---------------------------------------------------------------------------------------------

def nontrivial(hist):
    seen_change = False
    for op in hist:
        if op[0] in ('mutate', 'cutoff', 'suppress', 'mutate-names'):
            seen_change = True
        elif seen_change and op[0] in ('get', 'csv'):
            return True
    return False


def units(tier):
    out = [{'target': 'model', 'first': i, 'depth': BOUNDS[tier]['depth']} for i in range(len(OPS))]
    out += [{'target': 'model', 'start': 'stepped', 'first': i, 'depth': BOUNDS[tier]['depth'] - 1} for i in range(len(OPS))]
    out.append({'target': 'basesolver', 'depth': BOUNDS[tier]['depth'] + 1})
    return out


def run_unit(unit, tier):
    res = core.new_result()
    dig = core.Digest()
    if unit['target'] == 'model':
        depth = unit['depth']
        seen_states = set()
        for n in range(1, depth + 1):
            for rest in itertools.product(range(len(OPS)), repeat=n - 1):
                hist = [OPS[unit['first']]] + [OPS[i] for i in rest]
                dig.add(unit.get('start', 'solved') + repr(hist))
                v = run_history(hist, unit.get('start', 'solved'))
                res['evaluations'] += 1
                res['transitions'] += len(hist)
                res['traces'] += 1
                if nontrivial(hist):
                    res['nontrivial'] += 1
                # abstract state after the history: flags + whether a returned list is held (for the states count)
                st = (tuple(tuple(o) for o in hist if o[0] in ('cutoff', 'suppress'))[-2:], any(o[0] == 'get' for o in hist), len(hist))
                if st not in seen_states:
                    seen_states.add(st)
                    res['states'] += 1
                if v:
                    res['violations'].append(v)
                    core.bump(res['outcomes'], 'violation')
                else:
                    core.bump(res['outcomes'], 'ok-len%d' % n)
        res['max_depth'] = depth
        res['samples'] = [{'history': hist}]
    else:
        for order in (['t', 'a', 'b'], ['a', 't', 'b'], ['b', 'a', 't'], ['a', 'b']):
            for n in range(1, unit['depth'] + 1):
                for hist in itertools.product(BS_OPS, repeat=n):
                    if order == ['a', 'b']:
                        continue
                    dig.add((tuple(order), repr(hist)))
                    v = run_bs_history(order, [list(h) for h in hist])
                    res['evaluations'] += 1
                    res['transitions'] += n
                    res['states'] += 1
                    res['traces'] += 1
                    if sum(1 for h in hist if h[0] == 'csv') >= 2:
                        res['nontrivial'] += 1
                    if v:
                        res['violations'].append(v)
                        core.bump(res['outcomes'], 'bs-violation')
                    else:
                        core.bump(res['outcomes'], 'bs-ok')
        res['samples'] = [{'BaseSolver history': ['csv', 'csv'], 'VariableList': ['a', 't', 'b']}]
    best = {}
    for v in res['violations']:
        k = v['key']
        if k not in best or len(v['case']['history']) < len(best[k]['case']['history']):
            best[k] = v
    res['violations'] = list(best.values())
    res['digest'] = dig.hex()
    return res


def replay(case):
    if case['target'] == 'model':
        v = run_history([list(o) for o in case['history']], case.get('start', 'solved'))
    else:
        v = run_bs_history(case['varlist'], [list(o) for o in case['history']])
    return [v] if v else []
