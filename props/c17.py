"""
C17 - results depend only on the model, not on process history or diagnostics.

All sequences (up to the length bound) of jobs executed inside ONE interpreter: build+solve models (SIM; a
two-country model whose names are requested before main(), so placeholders carry process-wide IDs; a model that
raises), solve blocks in fresh solvers (reduction on/off, with a registered function, with the steady-state
search), re-solve the previous solver, re-parse the previous solver with another block, create idle objects -
each under every diagnostics setting (logging into a private directory, step tracing, registered function).
Oracle: every job's complete TimeSeries equals the baseline computed by that job alone, undiagnosed, in a separate
fresh process (two baseline processes are diffed first).
"""
import itertools
import json
import os
import shutil
import subprocess
import sys
import tempfile

from mc import core

core.setup_repo_path()

ID = 'C17'
LEVEL = 'model_checking'
RULE = ('states = multiset of (job, diagnostics) already executed in the interpreter + class-level state (EconomicObject.ID, Logger handles); '
        'transitions = one job; all sequences of length <= 2 over 23 jobs x 3 diagnostics settings (none, logging, logging+tracing+registered functions), and of length 3 (quick) / 4 (thorough) over a '
        'reduced alphabet (8 jobs, the whole sequence either undiagnosed or fully diagnosed); oracle: series (keys and values, ==) equal to the fresh-process baseline of that job; a re-parsed solver reports '
        'exactly the new block; non-trivial = sequences in which a job runs after another job or under a diagnostics setting')
ASSUMPTIONS = [
    'baselines come from two separate fresh interpreters and must be identical to each other (self-determinism check)',
    'log files go to a private temporary directory that is removed; Logger state is cleaned by the harness only where the library itself does (Model.main)',
]
BOUNDS = {'quick': {'full_len': 2, 'reduced_len': 3}, 'thorough': {'full_len': 2, 'reduced_len': 4}}

B1 = 'x = .5*x + y + 1\ny = .25*x + g\nz = x - y\nLAG_x = x(k-1)\nw = LAG_x + 1\nx(0) = 2.\n# exogenous\ng = [1., 2., 3., 4.]\nMaxTime = 3'
B2 = 'p = .5*q + 2\nq = .5*p + t\nr = p\nMaxTime = 2'
B3 = 'z = .5*LAG_z + 5.5 + .25*w\nw = .5*z + 1\nLAG_z = z(k-1)\nz(0) = 2.\nErr_Tolerance = 1e-10\nMaxTime = 4'     # (a within-period loop at a tight tolerance)
B4 = 'x = f(y) + 1\ny = .25*x\nMaxTime = 2'
B5 = 'x = .5*x + 3\nw = x + 1\nMaxTime = 2'     # only names that B1 also uses
B6 = 'p = f(q)\nq = .25*p + 2\nMaxTime = 2'      # registers ANOTHER function under the name f
B7 = 'w = .5*LAG_w + 1\nLAG_w = w(k-1)\nz = z + 0.01\nMaxTime = 2'   # steady-state search with z put on the exclusion list in place
B8 = 'x = 1 - 3*x\ny = .5*y + 1\nMaxTime = 2'       # does not converge in period 1 (the period that is traced under full diagnostics)

JOBS = ['M1', 'M2', 'M3', 'B1', 'B1nr', 'B2', 'B2nr', 'B3', 'B3ss', 'RESOLVE-B3plain', 'B4f', 'B5', 'B5nr', 'B6g', 'B7excl', 'B8nc', 'M2i', 'RESOLVE', 'RESOLVE-B4f', 'REPARSE-B2', 'REPARSE-B1', 'REPARSE-B5', 'IDLE50']
DIAGS = ['none', 'log', 'all']
REDUCED_JOBS = ['M2i', 'B3ss', 'B7excl', 'B4f', 'B6g', 'RESOLVE-B4f', 'REPARSE-B5', 'IDLE50']
REDUCED_DIAGS = ['none', 'all']


def fun(v):
    return 0.5 * v + 1.0


def fun2(v):
    return 0.25 * v - 3.0


class Ctx(object):
    def __init__(self):
        self.prev = None       # previous solver object
        self.prev_job = None
        self.logdir = None
        self.b4f = None        # the solver of the first B4f job (re-solved later by RESOLVE-B4f)


def setup_diag(diag, ctx):
    from sfc_models.utils import Logger
    if diag in ('log', 'all'):
        if ctx.logdir is None:
            ctx.logdir = tempfile.mkdtemp(prefix='sfcv-c17-', dir='/var/tmp')
        for name in ('log', 'timeseries', 'eqn', 'step', 'steadystate_0'):
            if name not in Logger.log_file_handles:
                Logger.register_log(os.path.join(ctx.logdir, name + '.txt'), name)


def apply_solver_diag(s, diag):
    if diag in ('trace', 'all'):
        s.TraceStep = 1
    if diag in ('func', 'all'):
        s.AddFunction('dbgf', fun)
        s.AddFunction('unused', lambda v: v)


def series_of(s):
    out = dict((k, list(v)) for k, v in s.TimeSeries.items())
    if s.ParameterSolveInitialSteadyState:
        # the stored steady-state search is part of the results (Model.GetTimeSeries(group_of_series='initial'))
        for k, v in s.TimeSeriesInitialSteadyState.items():
            out['initial:' + k] = list(v)
    return out


def run_job(job, diag, ctx):
    """Returns observed result: dict of series or 'raised:<Type>' or None (no-op)."""
    from sfc_models.equation_solver import EquationSolver
    from sfc_models.models import Model, Country, EconomicObject
    setup_diag(diag, ctx)
    if job == 'IDLE50':
        for i in range(50):
            EconomicObject()
        return None
    if job in ('M1', 'M2', 'M2i', 'M3'):
        try:
            if job == 'M1':
                from sfc_models.gl_book.chapter3 import SIM
                m = SIM('C1').build_model()
                m.MaxTime = 3
            elif job in ('M2', 'M2i'):
                from mc import topo
                spec = {'countries': [topo.base_country('AA'), topo.base_country('BB')], 'ext': 'last',
                        'links': [['gift', 'AA', 'BB', True, True], ['import', 'BB', 'AA']], 'xr': {'AA': 'x2', 'BB': 'xvar'}, 'horizon': 3}
                if job == 'M2i':
                    # two coexisting models built interleaved: a second Model() appears after the first country of this one
                    orig_country = topo.Country
                    state = {'n': 0}

                    def country_hook(*a, **kw):
                        c = orig_country(*a, **kw)
                        state['n'] += 1
                        if state['n'] == 1:
                            state['other'] = Model()      # (the other model stays empty for now)
                        return c
                    topo.Country = country_hook
                    try:
                        m = topo.build(spec).model
                    finally:
                        topo.Country = orig_country
                else:
                    m = topo.build(spec).model
                m.EquationSolver.MaxIterations = 400
            else:
                from sfc_models.sector import Market
                from sfc_models.sector_definitions import Household, ConsolidatedGovernment
                m = Model()
                c = Country(m, 'CO')
                ConsolidatedGovernment(c, 'GOV')
                Household(c, 'HH')
                Market(c, 'GOOD')
                m.MaxTime = 2
            apply_solver_diag(m.EquationSolver, diag)
            m.main()
        except Exception as e:
            ctx.prev = None
            return ('as', 'M2', 'raised:' + type(e).__name__) if job == 'M2i' else 'raised:' + type(e).__name__
        ctx.prev = m.EquationSolver
        ctx.prev_job = 'M2' if job == 'M2i' else job
        res_ = series_of(m.EquationSolver)
        return ('as', 'M2', res_) if job == 'M2i' else res_
    if job == 'RESOLVE-B3plain':
        # the solver that ran the steady-state search is re-solved with the search switched off: a plain solve of its block
        if ctx.prev is None or ctx.prev_job != 'B3ss':
            return None
        try:
            ctx.prev.ParameterSolveInitialSteadyState = False
            ctx.prev.SolveEquation()
        except Exception as e:
            return ('as', 'B3', 'raised:' + type(e).__name__)
        ctx.prev_job = 'B3'
        return ('as', 'B3', series_of(ctx.prev))
    if job in ('B1', 'B1nr', 'B2', 'B2nr', 'B3', 'B3ss', 'B4f', 'B5', 'B5nr', 'B6g', 'B7excl', 'B8nc'):
        text = {'B1': B1, 'B1nr': B1, 'B2': B2, 'B2nr': B2, 'B3': B3, 'B3ss': B3, 'B4f': B4, 'B5': B5, 'B5nr': B5, 'B6g': B6, 'B7excl': B7, 'B8nc': B8}[job]
        try:
            s = EquationSolver(text, run_equation_reduction=not job.endswith('nr'))
            if job == 'B3ss':
                s.ParameterSolveInitialSteadyState = True
                s.ParameterInitialSteadyStateMaxTime = 80
            apply_solver_diag(s, diag)
            if job == 'B4f':
                s.AddFunction('f', fun)
                if ctx.b4f is None:
                    ctx.b4f = s
            if job == 'B6g':
                s.AddFunction('f', fun2)
            if job == 'B7excl':
                # the user extends the solver's own exclusion list in place (z never settles in this block)
                s.ParameterSolveInitialSteadyState = True
                s.ParameterInitialSteadyStateMaxTime = 60
                s.ParameterInitialSteadyStateExcludedVariables.append('z')
            s.SolveEquation()
        except Exception as e:
            ctx.prev = None
            return 'raised:' + type(e).__name__
        ctx.prev = s
        ctx.prev_job = job
        return series_of(s)
    if job == 'RESOLVE-B4f':
        if ctx.b4f is None:
            return None
        try:
            ctx.b4f.SolveEquation()
        except Exception as e:
            return ('as', 'B4f', 'raised:' + type(e).__name__)
        return ('as', 'B4f', series_of(ctx.b4f))
    if job == 'RESOLVE':
        if ctx.prev is None:
            return None
        try:
            apply_solver_diag(ctx.prev, diag)
            ctx.prev.SolveEquation()
        except Exception as e:
            return ('as', ctx.prev_job, 'raised:' + type(e).__name__)
        return ('as', ctx.prev_job, series_of(ctx.prev))
    if job.startswith('REPARSE'):
        if ctx.prev is None:
            return None
        target = job.split('-')[1]
        text = {'B1': B1, 'B2': B2, 'B5': B5}[target]
        target_job = target if ctx.prev.RunEquationReduction else target + 'nr'
        if ctx.prev is ctx.b4f:
            ctx.b4f = None        # that solver now holds another block
        try:
            ctx.prev.ParameterSolveInitialSteadyState = False
            ctx.prev.MaxTime = None
            apply_solver_diag(ctx.prev, diag)
            ctx.prev.ParseString(text)
            ctx.prev.SolveEquation()
        except Exception as e:
            prev = ctx.prev
            ctx.prev = None
            return ('as', target_job, 'raised:' + type(e).__name__)
        ctx.prev_job = target_job
        return ('as', ctx.prev_job, series_of(ctx.prev))
    raise ValueError(job)


def compute_baselines():
    out = {}
    for job in JOBS:
        if job.startswith('RESOLVE') or job in ('IDLE50', 'M2i') or job.startswith('REPARSE'):
            continue
        ctx = Ctx()
        # each baseline in its own interpreter would be ideal; a fresh Ctx in a fresh process per call of this function
        out[job] = run_job(job, 'none', ctx)
    return out


def baseline_from_fresh_process(job):
    code = ("import sys, json; sys.path.insert(0, %r); from props import c17; "
            "print('BASELINE' + json.dumps(c17.run_job(%r, 'none', c17.Ctx())))" % (core.VERIF, job))
    p = subprocess.run([sys.executable, '-c', code], stdout=subprocess.PIPE, stderr=subprocess.PIPE, text=True,
                       env=dict(os.environ, PYTHONDONTWRITEBYTECODE='1'), cwd=core.VERIF)
    for line in p.stdout.split('\n'):
        if line.startswith('BASELINE'):
            return json.loads(line[len('BASELINE'):])
    raise RuntimeError('INTERNAL: baseline process failed for %s: %s' % (job, p.stderr[-500:]))


def all_baselines():
    """Two fresh interpreters per job (all started at once), results must be identical."""
    jobs = [j for j in JOBS if not (j.startswith('RESOLVE') or j in ('IDLE50', 'M2i') or j.startswith('REPARSE'))]
    procs = []
    for job in jobs:
        for rep in (0, 1):
            code = ("import sys, json; sys.path.insert(0, %r); from props import c17; "
                    "print('BASELINE' + json.dumps(c17.run_job(%r, 'none', c17.Ctx())))" % (core.VERIF, job))
            procs.append((job, subprocess.Popen([sys.executable, '-c', code], stdout=subprocess.PIPE, stderr=subprocess.PIPE, text=True,
                                                env=dict(os.environ, PYTHONDONTWRITEBYTECODE='1'), cwd=core.VERIF)))
    got = {}
    for job, p in procs:
        out, err = p.communicate()
        val = None
        for line in out.split('\n'):
            if line.startswith('BASELINE'):
                val = json.loads(line[len('BASELINE'):])
        if val is None:
            raise RuntimeError('INTERNAL: baseline process failed for %s: %s' % (job, err[-500:]))
        got.setdefault(job, []).append(val)
    out = {}
    for job in jobs:
        if got[job][0] != got[job][1]:
            raise RuntimeError('INTERNAL: two fresh-process baselines of %s differ' % job)
        out[job] = got[job][0]
    return out


def compare(job, diag, got, base, case):
    if got is None:
        return None
    expect_job = job
    if isinstance(got, tuple):
        expect_job, got = got[1], got[2]
    want = base.get(expect_job)
    if want is None:
        return None
    if isinstance(got, str) or isinstance(want, str):
        if got != want:
            return core.violation('outcome-differs:%s:%s' % (job, diag), 'job %s under %s: %r, baseline %r' % (job, diag, got if isinstance(got, str) else 'series', want if isinstance(want, str) else 'series'), case)
        return None
    if diag in ('func', 'all'):
        got = dict((k, v) for k, v in got.items() if k not in ('f', 'dbgf', 'unused'))
    if set(got) != set(want):
        extra = sorted(set(got) ^ set(want))
        key = 'remnants-after-reparse' if job.startswith('REPARSE') else 'variables-differ'
        return core.violation('%s:%s' % (key, job), 'job %s under %s: variables differ from baseline: %s' % (job, diag, extra[:6]), case)
    for k in sorted(want):
        if list(got[k]) != list(want[k]):
            return core.violation('series-differ:%s:%s' % (job.split('-')[0], diag), 'job %s under %s: %s = %r, baseline %r' % (job, diag, k, got[k], want[k]), case)
    return None


def run_sequence(seq, base):
    case = {'sequence': seq}
    ctx = Ctx()
    try:
        for i, (job, diag) in enumerate(seq):
            try:
                got = run_job(job, diag, ctx)
            except Exception as e:
                return core.violation('job-crashes:%s:%s:%s' % (job, diag, type(e).__name__), 'step %d %s/%s raised %r' % (i + 1, job, diag, e), case)
            v = compare(job, diag, got, base, case)
            if v:
                return v
    finally:
        from sfc_models.utils import Logger
        Logger.cleanup()
        if ctx.logdir:
            shutil.rmtree(ctx.logdir, ignore_errors=True)
    return None


def units(tier):
    base = all_baselines()
    b = BOUNDS[tier]
    full = [(j, d) for j in JOBS for d in DIAGS]
    out = []
    # (heavier units first: better load balance); reduced alphabet: one diagnostics setting per sequence
    for dg in REDUCED_DIAGS:
        red = [(j, dg) for j in REDUCED_JOBS]
        for first in red:
            for second in red:
                out.append({'alphabet': 'reduced', 'diag': dg, 'first': list(first), 'second': list(second), 'len': b['reduced_len'], 'base': base})
    for first in full:
        out.append({'alphabet': 'full', 'first': list(first), 'len': b['full_len'], 'base': base})
    return out


def run_unit(unit, tier):
    res = core.new_result()
    dig = core.Digest()
    base = unit['base']
    if unit['alphabet'] == 'full':
        alpha = [(j, d) for j in JOBS for d in DIAGS]
        lens = range(1, unit['len'] + 1)
    else:
        alpha = [(j, unit['diag']) for j in REDUCED_JOBS]
        lens = range(unit['len'], unit['len'] + 1)
    from sfc_models.models import EconomicObject
    for n in lens:
        for rest in itertools.product(alpha, repeat=n - 1):
            seq = [unit['first']] + [list(x) for x in rest]
            if 'second' in unit:
                if n < 2 or seq[1] != unit['second']:
                    continue
            dig.add(repr(seq))
            id_before = EconomicObject.ID
            v = run_sequence(seq, base)
            res['evaluations'] += 1
            res['transitions'] += len(seq)
            res['states'] += 1
            res['traces'] += 1
            if len(seq) > 1 or seq[0][1] != 'none':
                res['nontrivial'] += 1
            if v:
                res['violations'].append(v)
                core.bump(res['outcomes'], 'violation')
            else:
                core.bump(res['outcomes'], 'ok-len%d' % n)
    res['max_depth'] = max(lens)
    res['samples'] = [{'sequence': seq}]
    best = {}
    for v in res['violations']:
        k = v['key']
        if k not in best or len(v['case']['sequence']) < len(best[k]['case']['sequence']):
            best[k] = v
    res['violations'] = list(best.values())
    res['digest'] = dig.hex()
    return res


def replay(case):
    base = all_baselines()
    v = run_sequence([list(x) for x in case['sequence']], base)
    return [v] if v else []
