"""
C18 - codes are labels: renaming and embedding leave an economy unchanged.

(a) renaming: every economy of a small family is built twice - with the default codes and with a renaming map
    passed exclusively through the constructors' name parameters - and the exact rational solutions must coincide
    under the induced variable-name map;
(b) embedding: sets of 2..3 economies with pairwise different currencies (no declared flows) are placed in one
    model, in every order, with and without an unused ExternalSector; each economy must follow exactly the series
    it follows alone (documented country prefix), no equation may mention another economy's variable;
(c) the bundled builders SIM / SIMEX1 / PC embedded into an existing multi-country Model.
"""
import itertools
import json
import re

from mc import core, exact, topo

ID = 'C18'
LEVEL = 'model_checking'
RULE = ('renaming: (economy, renaming map) pairs - all maps changing <= bound codes among country/government/household/'
        'capitalists/firm/tax-flow/goods/labour codes, alternatives incl. prefixes of other codes and code swaps; embedding: all '
        'ordered selections of 2..3 economies (currencies USA/US/E chosen so that one currency string contains another) x '
        'external sector {none, unused}; bundled builders embedded next to another country; oracle: exact rational solution equal '
        'variable-by-variable under the name map / prefix rule, token-level isolation, NET_* of an unused external sector == 0; '
        'non-trivial = pairs whose map changes at least one code / joint models with >= 2 economies')
ASSUMPTIONS = [
    'the two government rows that hard-code DEM_GOOD (DEM_GOOD, PRIM_BAL) are excluded when the goods market is renamed (the class has no name parameter)',
    'renamings are injective on the codes of one country and identifier-shaped without double underscore',
    'PC builder (non-affine portfolio rule) compared through the library float solution at tolerance 1e-12 with a gap oracle',
]
BOUNDS = {
    'quick': {'renamed_codes': 2, 'embedding_set_size': 3},
    'thorough': {'renamed_codes': 3, 'embedding_set_size': 3},
}

ALTS = {
    'CO': ['ZZ', 'C'],
    'GOV': ['STATE', 'GO'],
    'TRE': ['FISC', 'TR'],
    'CB': ['BANK', 'C'],
    'HH': ['HOUSE', 'H'],
    'CAP': ['RENT', 'CA'],
    'BUS': ['FIRM', 'BU'],
    'TF': ['TAX', 'TFL'],
    'GOOD': ['FOOD', 'GOODS'],
    'LAB': ['WORK', 'LA'],
}
SWAPS = [{'HH': 'GOV', 'GOV': 'HH'}, {'BUS': 'HH', 'HH': 'BUS'}, {'GOOD': 'LAB', 'LAB': 'GOOD'}]


def economies():
    out = []
    for gov in ('CONS', 'TRECB'):
        for hh, cap in (('HH', False), ('HHX', False), ('HH', True)):
            for bus, m in (('FM', 0.0), ('FM', 0.1), ('MO', 0.1)):
                if cap and bus == 'MO':
                    continue
                c = topo.base_country('CO')
                c.update({'gov': gov, 'hh': hh, 'cap': cap, 'bus': bus, 'margin': m, 'G': 'G7'})
                if gov == 'TRECB':
                    c.update({'dep': 'rate', 'r': 'rstep', 'mon': True})
                out.append(('%s-%s%s-%s%g' % (gov, hh, '+CAP' if cap else '', bus, m), c))
    return out


def codes_of(c):
    return ['CO'] + [d[0] for d in topo.declarations(c) if d[0] in ALTS]


def rename_maps(c, bound):
    codes = codes_of(c)
    maps = []
    for n in range(1, bound + 1):
        for sub in itertools.combinations(codes, n):
            for alt in itertools.product(*[ALTS[x] for x in sub]):
                m = dict(zip(sub, alt))
                vals = [m.get(x, x) for x in codes if x != 'CO']
                if len(set(vals)) != len(vals):
                    continue
                maps.append(m)
    for sw in SWAPS:
        if all(k in codes for k in sw):
            maps.append(dict(sw))
    return maps


def units(tier):
    out = []
    b = BOUNDS[tier]
    for name, c in economies():
        maps = rename_maps(c, b['renamed_codes'])
        for i in range(0, len(maps), 25):
            out.append({'kind': 'rename', 'economy': name, 'country': c, 'maps': maps[i:i + 25]})
    pool = embedding_pool()
    keys = sorted(k for k in pool if k not in ('pc2', 'caps', 'lower'))
    for n in (2, 3):
        for sel in itertools.permutations(keys, n):
            for ext in (None, 'first', 'last'):
                out.append({'kind': 'embed', 'selection': list(sel), 'ext': ext})
    for sel in itertools.permutations(keys, 2):
        out.append({'kind': 'embed', 'selection': list(sel), 'ext': None, 'interleaved': True})
    for sel in (['caps', 'lower'], ['lower', 'caps'], ['caps', 'lower', 'sim'], ['sim', 'lower', 'caps']):
        for ext in (None, 'last'):
            out.append({'kind': 'embed', 'selection': sel, 'ext': ext})
    # the two treasury + central bank economies together (with at most one of the others), in every order
    for third in [None] + [k for k in keys if k != 'pc']:
        members = ['pc', 'pc2'] + ([third] if third else [])
        for sel in itertools.permutations(members):
            for ext in (None, 'first', 'last'):
                out.append({'kind': 'embed', 'selection': list(sel), 'ext': ext})
    for builder in ('SIM', 'SIMEX1', 'PC'):
        for book in (True, False):
            for pos in ('before', 'after'):
                out.append({'kind': 'builder', 'builder': builder, 'book': book, 'pos': pos})
    return out


# ---------------------------------------------------------------------------------------------
# (a) renaming

def map_local(local, cmap, country_old, country_new, multi):
    """Map a local variable name: trailing code (market code or supplier full code)."""
    for old in sorted(cmap, key=len, reverse=True):
        if old == 'CO':
            continue
        if local.endswith('_' + old):
            head = local[:-len(old)]
            # supplier full code in a multi-country model carries the country prefix: SUP_<CC>_<code>
            return head + cmap[old]
    return local


def map_var(v, cmap, multi, cc_old='CO'):
    if '__' not in v:
        return v
    full, local = v.split('__', 1)
    cc_new = cmap.get('CO', 'CO')
    if multi:
        if full.startswith(cc_old + '_'):
            code = full[len(cc_old) + 1:]
            full = cc_new + '_' + cmap.get(code, code)
            local = map_local(local, cmap, cc_old, cc_new, multi)
            if multi and local.startswith(('SUP_' + cc_old + '_', 'DEM_' + cc_old + '_')):
                pre = local[:4]
                rest = local[4 + len(cc_old) + 1:]
                local = pre + cc_new + '_' + cmap.get(rest, rest)
        # variables of the other (unrenamed) country are unchanged
    else:
        full = cmap.get(full, full)
        local = map_local(local, cmap, cc_old, cc_new, multi)
    return full + '__' + local


def solve_spec(spec, names=None):
    r = topo.run(spec, names=names, maxtime=0)
    if r.stage == 'build' or r.error is not None:
        return None, '%s:%s: %s' % (r.stage, type(r.error).__name__, str(r.error)[:160])
    try:
        em, sol = topo.solve_exact(r, spec.get('horizon', 3))
    except (exact.NonAffine, exact.Indeterminate, exact.Inconsistent, exact.Unsupported) as e:
        return None, 'exact-%s: %s' % (type(e).__name__, str(e)[:100])
    return sol, None


_BASE = {}


def check_rename(cspec, cmap, multi):
    countries = [json.loads(json.dumps(cspec))]
    if multi:
        other = topo.base_country('QQ')
        other['G'] = 'Gstep'
        countries.append(other)
    spec = {'countries': countries, 'ext': None, 'links': [], 'xr': {}, 'horizon': 3}
    case = {'kind': 'rename', 'country': cspec, 'map': cmap, 'multi': multi}
    key = topo.canon(spec)
    if key not in _BASE:
        _BASE[key] = solve_spec(spec)
    base, err = _BASE[key]
    if base is None:
        return 'base-fails', None
    spec2 = json.loads(json.dumps(spec))
    spec2['countries'][0]['names'] = dict(cmap)
    ren, err = solve_spec(spec2)
    if ren is None:
        return 'renamed-fails', core.violation('rename-breaks-build:' + sig(cmap), 'default codes build, renaming %s fails: %s' % (cmap, err), case)
    good_renamed = 'GOOD' in cmap
    govs = [g for g in ('GOV', 'TRE') if g in codes_of(cspec)]
    for k in range(len(base)):
        expect = {}
        for v, val in base[k].items():
            if good_renamed and any(v == ('CO_' if multi else '') + g + '__PRIM_BAL' for g in govs):
                continue
            expect[map_var(v, cmap, multi)] = val
        got = dict(ren[k])
        if good_renamed:
            cc_new = cmap.get('CO', 'CO')
            for g in govs:
                gfull = (cc_new + '_' if multi else '') + cmap.get(g, g)
                got.pop(gfull + '__PRIM_BAL', None)
                got.pop(gfull + '__DEM_GOOD', None)
        if set(expect) != set(got):
            d = sorted(set(expect) ^ set(got))[:6]
            return 'varset-differs', core.violation('rename-changes-variables:' + sig(cmap), 'map %s: variable sets differ: %s' % (cmap, d), case)
        bad = [v for v in expect if expect[v] != got[v]]
        if bad:
            v = sorted(bad)[0]
            return 'solution-differs', core.violation(
                'rename-changes-solution:' + sig(cmap),
                'map %s: period %d %s = %s, default codes give %s (%d variables differ)' % (cmap, k, v, got[v], expect[v], len(bad)), case)
    return 'same', None


def sig(cmap):
    return '+'.join(sorted(cmap))


# ---------------------------------------------------------------------------------------------
# (b) embedding

def embedding_pool():
    """Economies with pairwise different currencies; currency strings chosen so that one contains another."""
    sim = topo.base_country('USA')
    sim['G'] = 'G7'
    swapped = topo.base_country('US')          # a SIM economy whose government is coded HH and household GOV
    swapped.update({'names': {'GOV': 'HH', 'HH': 'GOV'}, 'G': 'Gstep', 'a1': 0.7, 'a2': 0.3})
    simex = topo.base_country('E')
    simex.update({'hh': 'HHX', 'tax': 0.25, 'margin': 0.1, 'cap': True})
    pc = topo.base_country('NUM')
    pc.update({'gov': 'TRECB', 'dep': 'rate', 'mon': True, 'r': 'rstep', 'ic': True})
    fed = [topo.base_country('FX', 'FED'), topo.base_country('FR', 'FED', region=True)]
    fed[1]['region_default_currency'] = True      # Region(model, code): currency defaults to the federation's
    # a second economy with a treasury and a central bank (same sector codes CB / TRE, same registered remittance as 'pc')
    pc2 = topo.base_country('N')
    pc2.update({'gov': 'TRECB', 'dep': 'const', 'mon': True, 'tax': 0.25, 'G': 'G7', 'a1': 0.7})
    # two economies whose country codes differ only in letter case, their spending paths given through the string API
    caps = topo.base_country('CA')
    caps.update({'G': 'G7', 'string_api': True})
    lower = topo.base_country('Ca')
    lower.update({'G': 'Gstep', 'string_api': True, 'a1': 0.7, 'a2': 0.3})
    return {'sim': [sim], 'swapped': [swapped], 'simex': [simex], 'pc': [pc], 'fed': fed, 'pc2': [pc2], 'caps': [caps], 'lower': [lower]}


def economy_vars(sol_k, ccodes, multi_names):
    """variables of a joint solution that belong to the countries ccodes (prefix rule)."""
    out = {}
    for v, val in sol_k.items():
        if '__' not in v:
            continue
        full = v.split('__')[0]
        for cc in ccodes:
            if full.startswith(cc + '_'):
                out[v] = val
    return out


def prefixed(v, cc, sector_codes):
    """Name of a stand-alone (single-country) variable once its economy lives in a multi-country model: the full
    code gains the country prefix, and so does a sector full code embedded in a market's SUP_<supplier> variable."""
    full, local = v.split('__', 1)
    is_market = (full + '__SUP_' + full) in sector_codes
    if is_market and local.startswith('SUP_') and local[4:] in sector_codes and local[4:] != full:
        local = 'SUP_' + cc + '_' + local[4:]
    return cc + '_' + full + '__' + local


def check_embed(selection, ext, interleaved=False):
    pool = embedding_pool()
    case = {'kind': 'embed', 'selection': selection, 'ext': ext}
    if interleaved:
        case['interleaved'] = True
    countries = []
    for key in selection:
        countries.extend(json.loads(json.dumps(pool[key])))
    joint_spec = {'countries': countries, 'ext': ext, 'links': [], 'xr': {}, 'horizon': 3}
    if interleaved:
        # the natural comparison loop: a stand-alone twin Model() is started while the joint model is still being declared
        from sfc_models.models import Model as _Model
        orig = topo._declare
        state = {'n': 0}

        def hooked(*a, **kw):
            state['n'] += 1
            if state['n'] in (3, 9):
                _Model()
            return orig(*a, **kw)
        topo._declare = hooked
        try:
            r = topo.run(joint_spec, maxtime=0)
        finally:
            topo._declare = orig
    else:
        r = topo.run(joint_spec, maxtime=0)
    if r.stage == 'build' or r.error is not None:
        return 'joint-fails', [core.violation('embedding-breaks-build', 'joint model %s (ext=%s) fails: %s: %s' % (
            selection, ext, type(r.error).__name__, str(r.error)[:200]), case)]
    try:
        em, joint = topo.solve_exact(r, 3)
    except (exact.NonAffine, exact.Indeterminate, exact.Inconsistent, exact.Unsupported) as e:
        return 'joint-exact-%s' % type(e).__name__, [core.violation(
            'embedding-makes-system-unsolvable', 'joint model %s: %s %s' % (selection, type(e).__name__, str(e)[:150]), case)]
    viols = []
    # isolation: token scan of the emitted equations
    owner = {}
    for key in selection:
        for c in pool[key]:
            owner[c['code']] = key
    eqs = list(em.endo) + [(l, s) for l, s in em.lagged]
    for lhs, rhs in eqs:
        full = lhs.split('__')[0]
        mine = None
        for cc in owner:
            if full.startswith(cc + '_'):
                mine = owner[cc]
        if mine is None:
            continue
        for tok in exact.names_in(rhs):
            if '__' not in tok:
                continue
            tfull = tok.split('__')[0]
            for cc in owner:
                if tfull.startswith(cc + '_') and owner[cc] != mine:
                    viols.append(core.violation('embedding-cross-reference', 'equation of %s mentions %s (economy %s): %s = %s' % (
                        mine, tok, owner[cc], lhs, rhs[:120]), case))
    if ext:
        for k in range(1, 4):
            for v, val in joint[k].items():
                if v.startswith('EXT_FX__NET_') and val != 0:
                    viols.append(core.violation('unused-external-sector-nonzero', 'period %d %s = %s' % (k, v, val), case))
    for key in selection:
        alone_spec = {'countries': json.loads(json.dumps(pool[key])), 'ext': None, 'links': [], 'xr': {}, 'horizon': 3}
        ck = topo.canon(alone_spec)
        if ck not in _BASE:
            _BASE[ck] = solve_spec(alone_spec)
        alone, err = _BASE[ck]
        if alone is None:
            continue
        ccodes = [c['code'] for c in pool[key]]
        single = len(ccodes) == 1
        for k in range(len(alone)):
            expect = {}
            codes = set(v.split('__')[0] for v in alone[k] if '__' in v) | set(alone[k])
            for v, val in alone[k].items():
                if '__' not in v:
                    continue
                expect[prefixed(v, ccodes[0], codes) if single else v] = val
            got = economy_vars(joint[k], ccodes, None)
            if set(expect) != set(got):
                d = sorted(set(expect) ^ set(got))[:6]
                viols.append(core.violation('embedding-changes-variables', 'economy %s in %s: variable sets differ %s' % (key, selection, d), case))
                break
            bad = [v for v in expect if expect[v] != got[v]]
            if bad:
                v = sorted(bad)[0]
                viols.append(core.violation('embedding-changes-solution', 'economy %s in %s (ext=%s): period %d %s = %s, alone %s (%d differ)' % (
                    key, selection, ext, k, v, got[v], expect[v], len(bad)), case))
                break
    return ('same' if not viols else 'violation'), viols


# ---------------------------------------------------------------------------------------------
# (c) bundled builders embedded in an existing model

def build_with_builder(builder, book, pos, embedded):
    from sfc_models.gl_book.chapter3 import SIM, SIMEX1
    from sfc_models.gl_book.chapter4 import PC
    from sfc_models.models import Model
    B = {'SIM': SIM, 'SIMEX1': SIMEX1, 'PC': PC}[builder]
    m = Model() if embedded else None
    other = topo.base_country('QQ')

    def add_other():
        b = topo.Built({'countries': [other]})
        b.model = m
        b.countries['QQ'] = topo.Country(m, 'QQ')
        for d in topo.declarations(other):
            topo._declare(b, other, b.countries['QQ'], d[0], None, {}, set(), [])
        b.sectors[('QQ', 'GOV')].SetExogenous('DEM_GOOD', topo.PATHS['Gstep'])
    if embedded and pos == 'before':
        add_other()
    obj = B('BK', model=m, use_book_exogenous=book)
    model = obj.build_model()
    if embedded and pos == 'after':
        add_other()
    if not book:
        c = model['BK']
        gov = c['GOV'] if builder != 'PC' else c['TRE']
        gov.SetExogenous('DEM_GOOD', topo.PATHS['G7'])
        if builder == 'PC':
            c['DEP'].SetExogenous('r', topo.PATHS['rstep'])
    model.MaxTime = 4
    model.EquationSolver.MaxIterations = 20000
    model.EquationSolver.ParameterErrorTolerance = 1e-12
    return model


def check_builder(builder, book, pos):
    case = {'kind': 'builder', 'builder': builder, 'book': book, 'pos': pos}
    try:
        alone = build_with_builder(builder, book, pos, False)
        alone.main()
    except Exception as e:
        return 'alone-fails:%s' % type(e).__name__, []
    try:
        joint = build_with_builder(builder, book, pos, True)
        joint.main()
    except Exception as e:
        return 'embedded-fails', [core.violation('embed:builder-fails:%s' % builder, '%s(use_book_exogenous=%s) embedded %s another country: %s: %s' % (
            builder, book, pos, type(e).__name__, str(e)[:200]), case)]
    a = alone.EquationSolver.TimeSeries
    j = joint.EquationSolver.TimeSeries
    viols = []
    indet = 0
    codes = set(v.split('__')[0] for v in a if '__' in v) | set(a)
    for v, ser in a.items():
        if '__' not in v:
            continue
        jv = prefixed(v, 'BK', codes)
        if jv not in j:
            viols.append(core.violation('embed:builder-variable-missing:%s' % builder, '%s missing in the joint model' % jv, case))
            break
        for k in range(len(ser)):
            d = abs(ser[k] - j[jv][k])
            sc = max(1.0, abs(ser[k]))
            if d >= 1e-4 * sc:
                viols.append(core.violation('embed:builder-solution-differs:%s' % builder, '%s[%d] = %r embedded, %r alone' % (jv, k, j[jv][k], ser[k]), case))
                break
            elif d > 1e-7 * sc:
                indet += 1
        if viols:
            break
    if indet and not viols:
        return 'indeterminate', []
    return ('same' if not viols else 'violation'), viols


# ---------------------------------------------------------------------------------------------

def run_unit(unit, tier):
    res = core.new_result()
    dig = core.Digest()
    if unit['kind'] == 'rename':
        for cmap in unit['maps']:
            multis = [False, True] if ('CO' in cmap or len(cmap) == 1) else [False]
            for multi in multis:
                dig.add((unit['economy'], sorted(cmap.items()), multi))
                outcome, v = check_rename(unit['country'], cmap, multi)
                res['evaluations'] += 1
                res['states'] += 4
                res['transitions'] += 3
                res['traces'] += 1
                res['nontrivial'] += 1
                core.bump(res['outcomes'], 'rename:' + outcome)
                if v:
                    res['violations'].append(v)
        res['samples'] = [{'economy': unit['economy'], 'map': unit['maps'][-1]}]
    elif unit['kind'] == 'embed':
        dig.add(('embed', tuple(unit['selection']), unit['ext'], unit.get('interleaved', False)))
        outcome, viols = check_embed(unit['selection'], unit['ext'], unit.get('interleaved', False))
        res['evaluations'] += 1
        res['states'] += 4 * (1 + len(unit['selection']))
        res['transitions'] += 3 * (1 + len(unit['selection']))
        res['traces'] += 1
        res['nontrivial'] += 1
        core.bump(res['outcomes'], 'embed:' + outcome)
        res['violations'].extend(viols)
        res['samples'] = [{'joint model': unit['selection'], 'external sector': unit['ext'], 'outcome': outcome}]
    else:
        dig.add(('builder', unit['builder'], unit['book'], unit['pos']))
        outcome, viols = check_builder(unit['builder'], unit['book'], unit['pos'])
        res['evaluations'] += 1
        res['states'] += 10
        res['transitions'] += 8
        res['traces'] += 1
        res['nontrivial'] += 1
        if outcome == 'indeterminate':
            res['indeterminate'] += 1
        core.bump(res['outcomes'], 'builder:%s:%s' % (unit['builder'], outcome))
        res['violations'].extend(viols)
        res['samples'] = [{'builder': unit['builder'], 'use_book_exogenous': unit['book'], 'other country declared': unit['pos']}]
    best = {}
    for v in res['violations']:
        best.setdefault(v['key'], v)
    res['violations'] = list(best.values())
    res['digest'] = dig.hex()
    return res


def replay(case):
    if case['kind'] == 'rename':
        o, v = check_rename(case['country'], case['map'], case['multi'])
        return [v] if v else []
    if case['kind'] == 'embed':
        return check_embed(case['selection'], case['ext'], case.get('interleaved', False))[1][:1]
    return check_builder(case['builder'], case['book'], case['pos'])[1][:1]
