"""
C19 - tab-delimited output is a faithful table of the results.

Exhaustive table enumeration on the real TimeSeriesHolder (every subset of the name alphabet up to the size bound x
value patterns x length profiles x format strings), parsed back by an own TSV parser; plus the solver-level wrapper
EquationSolver.GenerateCSVtext(format) and Model logging path on actually solved blocks (row count = horizon + 1).
"""
import itertools

from mc import core

core.setup_repo_path()
from sfc_models.utils import TimeSeriesHolder  # noqa
from sfc_models.equation_solver import EquationSolver  # noqa

ID = 'C19'
LEVEL = 'exploration'
RULE = ('tables = every subset of size <= 4 (quick) / every subset (thorough) of 11 series names (the five priority names, plain, qualified, '
        'mixed-case and underscore names) x 9 rotations of the value alphabet {0, 1, -1, 2.5, 1e-7, 123456789.0, -0.0, 1e300, int 7} x length '
        'profile {equal, one shorter, one empty} x 5 format strings, and the history render -> store one more series (item assignment / AppendValue) -> render; solved blocks (3 horizons) rendered through EquationSolver.GenerateCSVtext '
        'with every format, incl. the step-trace holder; oracle (own TSV parser): header = every key once, priority names first in the '
        'documented order, rest alphabetical, rows = shortest series, every cell == format % value; non-trivial = tables with >= 2 columns')
ASSUMPTIONS = [
    'alphabetical = code-point order or case-insensitive order (either accepted)',
]
BOUNDS = {'quick': {'max_subset': 4}, 'thorough': {'max_subset': 11}}

NAMES = ['iteration', 'iteration_error', 'iteration_abs_change', 'k', 't', 'a', 'b', 'z', 'HH__F', 'GOV__T', '_x']
PRIORITY = ['iteration', 'iteration_error', 'iteration_abs_change', 'k', 't']
VALUES = [0.0, 1.0, -1.0, 2.5, 1e-7, 123456789.0, -0.0, 1e300, 7]
FORMATS = ['%.5g', '%.3f', '%e', '%10.4f', '%r']
PROFILES = ['equal', 'one-shorter', 'one-empty']


def make_table(names, shift, profile):
    t = {}
    for j, n in enumerate(names):
        rows = 3
        if profile == 'one-shorter' and j == len(names) - 1:
            rows = 2
        if profile == 'one-empty' and j == 0:
            rows = 0
        t[n] = [VALUES[(i * 3 + j * 2 + shift) % len(VALUES)] for i in range(rows)]
    return t


def check_text(txt, table, fmt, case, label=''):
    names = list(table)
    if not names:
        if txt != '':
            return core.violation('empty-table-not-empty', 'empty holder renders %r' % txt[:40], case)
        return None
    lines = txt.split('\n')
    if lines[-1] != '':
        return core.violation('no-trailing-newline', 'text does not end with a newline', case)
    lines = lines[:-1]
    header = lines[0].split('\t')
    if sorted(header) != sorted(names):
        return core.violation(label + 'header-names-wrong', 'header %r for series %r' % (header, sorted(names)), case)
    prio = [n for n in PRIORITY if n in names]
    if header[:len(prio)] != prio:
        return core.violation(label + 'priority-order-wrong', 'header %r, priority columns should start %r' % (header, prio), case)
    rest = header[len(prio):]
    if rest != sorted(rest) and rest != sorted(rest, key=lambda s: s.lower()):
        return core.violation(label + 'rest-not-alphabetical', 'non-priority columns %r' % (rest,), case)
    nrows = min(len(v) for v in table.values())
    if len(lines) - 1 != nrows:
        return core.violation(label + 'row-count-wrong', '%d data rows, shortest series has %d' % (len(lines) - 1, nrows), case)
    for i in range(nrows):
        cells = lines[i + 1].split('\t')
        if len(cells) != len(header):
            return core.violation(label + 'ragged-row', 'row %d has %d cells for %d columns' % (i, len(cells), len(header)), case)
        for c, n in zip(cells, header):
            want = fmt % (table[n][i],)
            if c != want:
                return core.violation(label + 'cell-wrong', 'row %d column %s: %r, expected %r (format %s)' % (i, n, c, want, fmt), case)
    return None


def units(tier):
    out = []
    mx = BOUNDS[tier]['max_subset']
    for n in range(0, mx + 1):
        subs = list(itertools.combinations(NAMES, n))
        for i in range(0, len(subs), 40):
            out.append({'kind': 'tables', 'n': n, 'start': i})
    out.append({'kind': 'solved'})
    return out


BLOCKS = [
    'x = .5*x + y + 1\ny = .25*x + 123456.789\nzz = x - y\nHH__F = 1e-7*x\nMaxTime = %d',
    'A = .5*B + 1\nB = .5*A + t\n_u = A*1e150*1e150\nMaxTime = %d',
]


def check_override(case):
    """Horizon imposed from outside (EquationSolver.MaxTime before parsing / Model.MaxTime): horizon+1 data rows."""
    H = case['H']
    try:
        if case['kind'] == 'override':
            btxt = BLOCKS[case['block']]
            s = EquationSolver()
            s.MaxTime = H
            s.ParseString((btxt % case['text_horizon']) if case['text_horizon'] is not None else btxt.replace('\nMaxTime = %d', ''))
            s.SolveEquation()
        else:
            from sfc_models.gl_book.chapter3 import SIM
            m = SIM('C1', use_book_exogenous=False).build_model()
            m.MaxTime = H
            m.main()
            s = m.EquationSolver
        rows = [l for l in s.GenerateCSVtext('%.5g').split('\n')[1:] if l != '']
    except Exception as e:
        return core.violation('solved:override-raises:' + type(e).__name__, 'horizon %d imposed from outside: %r' % (H, e), case)
    if len(rows) != H + 1:
        return core.violation('solved:row-count-wrong:imposed-horizon', 'horizon %d imposed from outside (%r): the table has %d data rows' % (H, case, len(rows)), case)
    return None


def run_unit(unit, tier):
    res = core.new_result()
    dig = core.Digest()
    if unit['kind'] == 'tables':
        subs = list(itertools.combinations(NAMES, unit['n']))[unit['start']:unit['start'] + 40]
        for sub in subs:
            # insertion order of the holder is varied too (reverse order for odd shifts)
            for shift in range(len(VALUES)):
                for profile in PROFILES:
                    order = list(sub) if shift % 2 == 0 else list(reversed(sub))
                    table = make_table(order, shift, profile)
                    h = TimeSeriesHolder('k')
                    for n in order:
                        h[n] = list(table[n])
                    for fmt in FORMATS:
                        case = {'kind': 'tables', 'names': order, 'shift': shift, 'profile': profile, 'fmt': fmt}
                        dig.add((sub, shift, profile, fmt))
                        try:
                            txt = h.GenerateCSVtext(fmt)
                        except Exception as e:
                            v = core.violation('render-raises:' + type(e).__name__, 'GenerateCSVtext raised %r' % (e,), case)
                        else:
                            v = check_text(txt, table, fmt, case)
                        res['evaluations'] += 1
                        if len(sub) >= 2:
                            res['nontrivial'] += 1
                        if v:
                            res['violations'].append(v)
                            core.bump(res['outcomes'], 'violation')
                        else:
                            core.bump(res['outcomes'], 'ok-%dcols' % len(sub))
                    # history: a series stored AFTER the table has been rendered must appear in the next rendering
                    if profile == 'equal' and len(sub) >= 1:
                        for how in ('setitem', 'AppendValue'):
                            # (another holder, with a time axis of its own, exists elsewhere in the process; its axis name is the late series' name)
                            TimeSeriesHolder('year')
                            h2 = TimeSeriesHolder('k')
                            for n in order:
                                h2[n] = list(table[n])
                            h2.GenerateCSVtext(FORMATS[0])
                            t2 = dict((k, list(v)) for k, v in table.items())
                            if how == 'setitem':
                                h2['late_series'] = [5.0, 6.0, 7.0]
                                t2['late_series'] = [5.0, 6.0, 7.0]
                            else:
                                h2.AppendValue('year', 5.0)
                                t2['year'] = [5.0]
                            case = {'kind': 'tables-late', 'names': order, 'shift': shift, 'how': how}
                            v = check_text(h2.GenerateCSVtext(FORMATS[0]), t2, FORMATS[0], case, label='after-adding-series:')
                            res['evaluations'] += 1
                            res['nontrivial'] += 1
                            if v:
                                res['violations'].append(v)
                                core.bump(res['outcomes'], 'late-violation')
                            else:
                                core.bump(res['outcomes'], 'late-ok')
                    if dict((k, list(v)) for k, v in h.items()) != table:
                        res['violations'].append(core.violation('rendering-mutates-holder', 'holder changed by rendering', {'kind': 'tables', 'names': order, 'shift': shift, 'profile': profile, 'fmt': FORMATS[0]}))
        res['samples'] = [{'columns': list(subs[-1]) if subs else [], 'formats': FORMATS}]
    else:
        for bi, btxt in enumerate(BLOCKS):
            for H in (0, 2, 5):
                s = EquationSolver(btxt % H)
                s.TraceStep = 1 if H > 0 else None
                s.SolveEquation()
                for fmt in FORMATS:
                    for which in ('solver', 'holder', 'trace'):
                        case = {'kind': 'solved', 'block': bi, 'H': H, 'fmt': fmt, 'which': which}
                        dig.add((bi, H, fmt, which))
                        if which == 'solver':
                            txt = s.GenerateCSVtext(fmt)
                            table = dict((k, list(v)) for k, v in s.TimeSeries.items())
                        elif which == 'holder':
                            txt = s.TimeSeries.GenerateCSVtext(fmt)
                            table = dict((k, list(v)) for k, v in s.TimeSeries.items())
                        else:
                            if H == 0:
                                continue
                            txt = s.TimeSeriesStepTrace.GenerateCSVtext(fmt)
                            table = dict((k, list(v)) for k, v in s.TimeSeriesStepTrace.items())
                        v = check_text(txt, table, fmt, case, label='solved:%s:' % which)
                        if not v and which != 'trace':
                            rows = len(txt.split('\n')) - 2
                            if rows != H + 1:
                                v = core.violation('solved:row-count-not-horizon+1', '%d data rows for horizon %d' % (rows, H), case)
                        res['evaluations'] += 1
                        res['nontrivial'] += 1
                        if v:
                            res['violations'].append(v)
                            core.bump(res['outcomes'], 'solved-violation')
                        else:
                            core.bump(res['outcomes'], 'solved-ok:' + which)
        # horizon imposed from outside: EquationSolver.MaxTime set before the block is parsed, Model.MaxTime for a built model
        cases = [{'kind': 'override', 'block': bi, 'text_horizon': th, 'H': H} for bi in range(len(BLOCKS)) for th in (3, None) for H in (0, 1, 4)]
        cases += [{'kind': 'override-model', 'H': H} for H in (0, 1, 4)]
        for case in cases:
            dig.add(sorted(case.items(), key=str))
            v = check_override(case)
            res['evaluations'] += 1
            res['nontrivial'] += 1
            if v:
                res['violations'].append(v)
                core.bump(res['outcomes'], 'override-violation')
            else:
                core.bump(res['outcomes'], 'override-ok')
        # history: the same solver object parses and solves a second block (other variables, other horizon)
        for (b1, H1), (b2, H2) in [((0, 2), (1, 5)), ((1, 5), (0, 2)), ((0, 0), (1, 3)), ((1, 3), (0, 3))]:
            s = EquationSolver(BLOCKS[b1] % H1)
            s.SolveEquation()
            s.GenerateCSVtext()
            s.ParseString(BLOCKS[b2] % H2)
            s.SolveEquation()
            fresh = EquationSolver(BLOCKS[b2] % H2)
            fresh.SolveEquation()
            case = {'kind': 'solved-reuse', 'first': [b1, H1], 'second': [b2, H2]}
            dig.add(('reuse', b1, H1, b2, H2))
            table = dict((k, list(v)) for k, v in fresh.TimeSeries.items())
            v = check_text(s.GenerateCSVtext('%.5g'), table, '%.5g', case, label='solved:reused-solver:')
            res['evaluations'] += 1
            res['nontrivial'] += 1
            if v:
                res['violations'].append(v)
                core.bump(res['outcomes'], 'solved-violation')
            else:
                core.bump(res['outcomes'], 'solved-ok:reused-solver')
        # default format argument
        s = EquationSolver(BLOCKS[0] % 2)
        s.SolveEquation()
        v = check_text(s.GenerateCSVtext(), dict((k, list(v)) for k, v in s.TimeSeries.items()), '%.5g',
                       {'kind': 'solved', 'block': 0, 'H': 2, 'fmt': 'default', 'which': 'solver'}, label='solved:default:')
        res['evaluations'] += 1
        if v:
            res['violations'].append(v)
        res['samples'] = [{'solved block': BLOCKS[0] % 2}]
    best = {}
    for v in res['violations']:
        best.setdefault(v['key'], v)
    res['violations'] = list(best.values())
    res['digest'] = dig.hex()
    return res


def replay(case):
    if case['kind'] in ('override', 'override-model'):
        v = check_override(case)
        return [v] if v else []
    if case['kind'] == 'tables-late':
        table = make_table(case['names'], case['shift'], 'equal')
        TimeSeriesHolder('year')
        h2 = TimeSeriesHolder('k')
        for n in case['names']:
            h2[n] = list(table[n])
        h2.GenerateCSVtext(FORMATS[0])
        if case['how'] == 'setitem':
            h2['late_series'] = [5.0, 6.0, 7.0]
            table['late_series'] = [5.0, 6.0, 7.0]
        else:
            h2.AppendValue('year', 5.0)
            table['year'] = [5.0]
        v = check_text(h2.GenerateCSVtext(FORMATS[0]), table, FORMATS[0], case, label='after-adding-series:')
        return [v] if v else []
    if case['kind'] == 'tables':
        table = make_table(case['names'], case['shift'], case['profile'])
        h = TimeSeriesHolder('k')
        for n in case['names']:
            h[n] = list(table[n])
        v = check_text(h.GenerateCSVtext(case['fmt']), table, case['fmt'], case)
        return [v] if v else []
    if case['kind'] == 'solved-reuse':
        (b1, H1), (b2, H2) = case['first'], case['second']
        s = EquationSolver(BLOCKS[b1] % H1)
        s.SolveEquation()
        s.GenerateCSVtext()
        s.ParseString(BLOCKS[b2] % H2)
        s.SolveEquation()
        fresh = EquationSolver(BLOCKS[b2] % H2)
        fresh.SolveEquation()
        v = check_text(s.GenerateCSVtext('%.5g'), dict((k, list(x)) for k, x in fresh.TimeSeries.items()), '%.5g', case, label='solved:reused-solver:')
        return [v] if v else []
    s = EquationSolver(BLOCKS[case['block']] % case['H'])
    s.TraceStep = 1 if case['H'] > 0 else None
    s.SolveEquation()
    fmt = case['fmt'] if case['fmt'] != 'default' else '%.5g'
    if case['which'] == 'solver':
        txt = s.GenerateCSVtext(fmt) if case['fmt'] != 'default' else s.GenerateCSVtext()
        table = dict((k, list(v)) for k, v in s.TimeSeries.items())
    elif case['which'] == 'holder':
        txt = s.TimeSeries.GenerateCSVtext(fmt)
        table = dict((k, list(v)) for k, v in s.TimeSeries.items())
    else:
        txt = s.TimeSeriesStepTrace.GenerateCSVtext(fmt)
        table = dict((k, list(v)) for k, v in s.TimeSeriesStepTrace.items())
    v = check_text(txt, table, fmt, case, label='solved:%s:' % case['which'])
    return [v] if v else []
