"""
C20 - the generated stand-alone solver agrees with the in-process solver.

Every block of the grammar (contraction factor <= 0.5: the generated solver has no damping) is pushed through the
real IterativeMachineGenerator; the emitted file is imported and run; its values must satisfy the block's equations
(lags from its own previous period, exogenous from the supplied paths), agree with the in-process EquationSolver
when both start from the same k=0 values, and its table must list the time axis first and every non-lagged variable
once.  Each generator object emits twice (second emission after changing MaxIterations) - the history dimension.
"""
import importlib.util
import itertools
import math
import os
import re
import shutil
import sys

from mc import core
from mc.blocks import Block, NAMES, rhs_menu, row_sum

core.setup_repo_path()
from sfc_models.deprecated.iterative_machine_generator import IterativeMachineGenerator  # noqa
from sfc_models.equation_solver import EquationSolver  # noqa

ID = 'C20'
LEVEL = 'exploration'
RULE = ('2-variable blocks from the menu product (constants, aliases, one- and two-term affine forms, row sums <= 0.5) x dress '
        '{plain, lag+exogenous+initial condition+decorative, user time via own lag, exogenous user time, expressions in k with a user '
        'calendar axis, variables spelled like the loop state of the generated solver (err, cnt, new_vector)} x MaxTime {1,3} x exogenous length {exact, excess} x generator reduction {off,on} x emission {first, second by the '
        'same generator object}; oracle: module imports and runs, MaxTime+1 values per non-lagged variable, residual of every equation <= 2B '
        '(B = row-sum * Err_Tolerance from the finite-difference Jacobian; violated >= 20B), exogenous exact, k=0 = stated initial condition (else 0 or the in-process start), agreement with the in-process '
        'solver within a gap when the k=0 values coincide, table header t-first and duplicate-free; non-trivial = blocks with a simultaneous core')
ASSUMPTIONS = [
    'generated solver stop test: sum |new-old| <= Err_Tolerance, reported vector = last iterate; hence residual_i <= sum_j |a_ij| tol',
    'the generated file is written to a private directory under /var/tmp and removed; bytecode writing is disabled',
]
BOUNDS = {'quick': {'coefs': [-.5, .25, .5], 'consts': [0., 1.]}, 'thorough': {'coefs': [-.5, -.25, .25, .5], 'consts': [0., 1., -3.5]}}

DRESS = ['plain', 'lagexo', 'user-t-endo', 'user-t-exo', 'k-expr', 'loop-names', 'transfer', 'cap-names', 'math-funcs']
MATH_ENV = dict((k, getattr(math, k)) for k in dir(math) if not k.startswith('_'))


def dress(eqs, kind, maxtime, excess):
    eqs = list(eqs)
    n = maxtime + 1 + (4 if excess else 0)
    glist = '[' + ', '.join(repr(float(1 + i % 3)) for i in range(n)) + ']'
    if kind == 'plain':
        return Block(eqs, maxtime=maxtime, tol='1e-6')
    if kind == 'lagexo':
        eqs[0] = (eqs[0][0], eqs[0][1] + ' + g')
        eqs[1] = (eqs[1][0], eqs[1][1] + ' + 0.25*LAG_x')
        eqs.append(('dw', '.5*x + y'))
        eqs.append(('cst', '2.5'))
        return Block(eqs, lags=[('LAG_x', 'x')], ics={'x': '5.'}, exos=[('g', glist)], maxtime=maxtime, tol='1e-6')
    if kind == 'user-t-endo':
        eqs.append(('t', 'LAG_t + 1.0'))
        return Block(eqs, lags=[('LAG_t', 't')], ics={'t': '2000.'}, maxtime=maxtime, tol='1e-6')
    if kind == 'user-t-exo':
        tl = '[' + ', '.join(repr(10.0 + i) for i in range(n)) + ']'
        eqs[0] = (eqs[0][0], eqs[0][1] + ' + 0.01*t')
        return Block(eqs, exos=[('t', tl)], maxtime=maxtime, tol='1e-6')
    if kind == 'k-expr':
        eqs.append(('t', '2010.0 + 0.25*k'))
        eqs.append(('trend', '0.5*k'))
        eqs[0] = (eqs[0][0], eqs[0][1] + ' + 0.1*trend')
        return Block(eqs, maxtime=maxtime, tol='1e-6')
    if kind == 'transfer':
        # a closed pair written in transfer form (what one stock loses the other gains): the iterates move by equal and
        # opposite amounts
        eqs.append(('DA', 'LAG_DA + g - 0.5*DA + 0.25*DB'))
        eqs.append(('DB', 'LAG_DB + 0.5*DA - 0.25*DB'))
        return Block(eqs, lags=[('LAG_DA', 'DA'), ('LAG_DB', 'DB')], exos=[('g', glist)], maxtime=maxtime, tol='1e-6')
    if kind == 'math-funcs':
        # every name of the math module is accepted by the parser and by the in-process solver
        # (smooth functions only: a step function of an iterate that oscillates around 0 never settles, in either solver)
        eqs.append(('mm', 'tanh(0.05*x) + atan2(y, 2.) + hypot(x, 3.) + erf(0.1*y) + log1p(x*x) + expm1(0.01*y) + degrees(0.1) + gamma(1.5)'))
        eqs.append(('m2', '0.1*mm + radians(90.) + cosh(0.1*x) + asinh(y) + tau + ldexp(1., 3) + lgamma(2.5) + erfc(0.1*x)'))
        return Block(eqs, maxtime=maxtime, tol='1e-6')
    if kind == 'cap-names':
        # upper-case names that differ from the reserved time / step names only by case (T is the usual name for taxes)
        eqs.append(('T', '.2*x + 1.'))
        eqs.append(('K', 'T + LAG_K'))
        eqs.append(('T_minus_1', '.5*T'))
        return Block(eqs, lags=[('LAG_K', 'K')], maxtime=maxtime, tol='1e-6')
    if kind == 'loop-names':
        # variables spelled like the generated solver's own loop state
        eqs.append(('err', '0.5*err + .25*x'))
        eqs.append(('cnt', 'err + 1.'))
        eqs.append(('new_vector', '2*cnt'))
        return Block(eqs, lags=[('LAG_y', 'y')], maxtime=maxtime, tol='1e-6')
    raise ValueError(kind)


def scratch_dir():
    d = '/var/tmp/sfcv-c20-%d' % os.getpid()
    os.makedirs(d, exist_ok=True)
    return d


_counter = [0]


def load_module(path):
    _counter[0] += 1
    name = 'sfcv_gen_%d_%d' % (os.getpid(), _counter[0])
    spec = importlib.util.spec_from_file_location(name, path)
    mod = importlib.util.module_from_spec(spec)
    spec.loader.exec_module(mod)
    return mod


def feval(rhs, env):
    e = dict(MATH_ENV)
    e.update(env)
    return eval(rhs, {'__builtins__': {'abs': abs, 'min': min, 'max': max, 'float': float, 'pow': pow}}, e)


def tokens(rhs):
    return set(re.findall(r'[A-Za-z_][A-Za-z_0-9]*', rhs))


def check_module(obj, block, case):
    viols = []
    indet = 0

    def V(key, what):
        viols.append(core.violation(key, what, case))
    H = block.maxtime
    tol = float(block.tol)
    eqs = list(block.eqs)
    user_t = any(v == 't' for v, r in eqs) or any(v == 't' for v, r in block.exos)
    if not user_t:
        eqs.append(('t', 'k'))
    names = [v for v, r in eqs]
    exo = dict(block.exos)
    series = {}
    for v in names + list(exo):
        if not hasattr(obj, v):
            V('variable-missing', 'generated object has no series %s' % v)
            return viols, indet
        series[v] = list(getattr(obj, v))
        if len(series[v]) != H + 1:
            V('wrong-length', '%s has %d values, MaxTime+1 = %d' % (v, len(series[v]), H + 1))
            return viols, indet
    for g, r in block.exos:
        want = feval(r, {})[:H + 1]
        if series[g] != want:
            V('exogenous-not-exact', '%s = %r, supplied %r' % (g, series[g], want))
    for k in range(1, H + 1):
        env = dict((v, series[v][k]) for v in series)
        env['k'] = float(k)
        for l, s in block.lags:
            env[l] = series[s][k - 1]
        for v, r in eqs:
            try:
                val = feval(r, env)
            except Exception as e:
                V('equation-not-evaluable', '%s = %s raises %r at the module values' % (v, r, e))
                continue
            got = series[v][k]
            B = 1e-12 * (1 + abs(got))
            for u in tokens(r):
                if u in names:
                    h = max(1e-6, 1e-6 * abs(env[u]))
                    e2 = dict(env)
                    e2[u] = env[u] + h
                    B += abs(feval(r, e2) - val) / h * tol
            res = abs(val - got)
            if res <= 2 * B + 2e-12:
                continue
            if res >= 20 * B + 1e-9:
                V('residual-exceeds-bound', 'period %d: |%s - (%s)| = %.3g, bound %.3g' % (k, v, r, res, B))
            else:
                indet += 1
    # table
    try:
        txt = obj.CreateCsvString()
    except Exception as e:
        V('table-raises:' + type(e).__name__, 'CreateCsvString raised %r' % (e,))
        return viols, indet
    header = txt.split('\n')[0].split('\t')
    if header[0] != 't':
        V('table-time-not-first', 'header %r' % (header,))
    want_cols = sorted(set(names + list(exo) + (['k'] if 'k' in header else [])))
    if sorted(header) != want_cols:
        V('table-columns-wrong', 'header %r, expected each of %r exactly once' % (header, want_cols))
    rows = [l for l in txt.split('\n')[1:] if l.strip() != '']
    if len(rows) != H + 1:
        V('table-row-count', '%d data rows, MaxTime+1 = %d' % (len(rows), H + 1))
    return viols, indet


def agree_with_inprocess(obj, block, case):
    """Starting values, and - where the k=0 values coincide - agreement with the in-process solver within a gap."""
    try:
        s = EquationSolver(block.text(), run_equation_reduction=False)
        s.SolveEquation()
    except Exception:
        return [], 0
    tol = float(block.tol)
    names = [v for v, r in block.eqs]
    # k=0: a stated initial condition is the starting value; without one the module starts either at 0 or where the
    # in-process solver starts (both conventions accepted) - anything else means "not started from the same k=0 values"
    for v in names:
        if not hasattr(obj, v):
            continue
        v0 = getattr(obj, v)[0]
        if v in block.ics:
            want = feval(block.ics[v], {})
            if v0 != want:
                return [core.violation('k0-initial-condition-ignored', '%s starts at %r, stated initial condition %r' % (v, v0, want), case)], 0
        elif v0 != 0.0 and v0 != s.TimeSeries[v][0]:
            return [core.violation('k0-start-value-wrong', '%s starts at %r (no initial condition; in-process solver starts at %r)' % (
                v, v0, s.TimeSeries[v][0]), case)], 0
    for v in names:
        if not hasattr(obj, v) or getattr(obj, v)[0] != s.TimeSeries[v][0]:
            return [], 0     # different starting point: nothing to compare
    viols = []
    indet = 0
    for v in names:
        a = list(getattr(obj, v))
        b = s.TimeSeries[v]
        for k in range(1, min(len(a), len(b))):
            d = abs(a[k] - b[k]) / (1 + abs(b[k]))
            if d >= 1e4 * tol:
                viols.append(core.violation('disagrees-with-inprocess-solver', '%s[%d] = %r generated, %r in-process' % (v, k, a[k], b[k]), case))
                return viols, indet
            if d > 100 * tol:
                indet += 1
    return viols, indet


def run_block(block, gen_red, case):
    d = scratch_dir()
    viols = []
    indet = 0
    gen = None
    try:
        gen = IterativeMachineGenerator(block.text(), run_equation_reduction=gen_red)
    except Exception as e:
        return 'generator-raises', [core.violation('generator-raises:' + type(e).__name__, 'IterativeMachineGenerator raised %r' % (e,), case)], 0
    for emission in (1, 2):
        path = os.path.join(d, 'gen_%d.py' % emission)
        c2 = dict(case, emission=emission)
        try:
            if emission == 2:
                gen.MaxIterations = '500'
            gen.main(path)
            mod = load_module(path)
            obj = mod.SFCModel()
            core.with_deadline(30.0, obj.main)
        except core.WorkBudgetExceeded:
            viols.append(core.violation('unbounded-work', 'generated module did not stop', c2))
            break
        except Exception as e:
            viols.append(core.violation('generated-module-fails:%s:emission%d' % (type(e).__name__, emission),
                                        'emission %d: %s: %s' % (emission, type(e).__name__, str(e)[:150]), c2))
            break
        finally:
            if os.path.exists(path):
                os.remove(path)
        v, i = check_module(obj, block, c2)
        viols.extend(v)
        indet += i
        if emission == 1 and not v and block.maxtime >= 1:
            # history on the emitted class: one period stepped by hand, then main() for the rest - same series as main() alone
            try:
                obj2 = mod.SFCModel()
                obj2.RunOneStep()
                core.with_deadline(30.0, obj2.main)
                names = [n for n in dir(obj) if isinstance(getattr(obj, n), list) and not n.startswith('_')]
                for n in sorted(names):
                    if getattr(obj, n) != getattr(obj2, n):
                        viols.append(core.violation('stepped-then-main-differs', 'RunOneStep(); main() gives %s = %r, main() alone %r' % (
                            n, getattr(obj2, n)[:6], getattr(obj, n)[:6]), c2))
                        break
            except core.WorkBudgetExceeded:
                viols.append(core.violation('unbounded-work', 'generated module did not stop (stepped, then main)', c2))
            except Exception as e:
                viols.append(core.violation('stepped-then-main-fails:' + type(e).__name__, 'RunOneStep(); main() raised %s: %s' % (type(e).__name__, str(e)[:120]), c2))
        if emission == 1 and not v:
            v, i = agree_with_inprocess(obj, block, c2)
            viols.extend(v)
            indet += i
    # history: the SAME generator object is given a second block that states no tolerance of its own
    if not viols:
        second = Block([('x', '.5*y + 2.'), ('y', '.25*x + 1.'), ('z', 'x - y')], maxtime=2, tol=None)
        loose = Block.from_json(block.as_json())
        loose.tol = '0.05'
        path = os.path.join(d, 'gen_reuse.py')
        c3 = dict(case, emission='second block on the same generator object')
        try:
            g2 = IterativeMachineGenerator(loose.text(), run_equation_reduction=gen_red)
            g2.main(path)
            g2.ParseString(second.text())
            g2.main(path)
            obj = load_module(path).SFCModel()
            core.with_deadline(30.0, obj.main)
            ref = Block.from_json(second.as_json())
            ref.tol = '1e-8'      # the parser's documented default
            v, i = check_module(obj, ref, c3)
            for x in v:
                x['key'] = 'reused-generator:' + x['key']
            viols.extend(v)
            indet += i
        except core.WorkBudgetExceeded:
            viols.append(core.violation('unbounded-work', 'generated module did not stop', c3))
        except Exception as e:
            viols.append(core.violation('reused-generator:fails:' + type(e).__name__, '%s: %s' % (type(e).__name__, str(e)[:150]), c3))
        finally:
            if os.path.exists(path):
                os.remove(path)
    return ('ok' if not viols else 'violation'), viols, indet


# blocks outside the menu product: boundary values of the run parameters
SPECIAL = [
    # loop-free block with lags, an initial condition and an exogenous list, solved exactly: a stated tolerance of 0 is met
    ('tolerance-zero', Block([('x', 'LAG_x + g'), ('y', '2*x + 1'), ('z', 'y - LAG_y')], lags=[('LAG_x', 'x'), ('LAG_y', 'y')], ics={'x': '3.'},
                             exos=[('g', '[1.0, 2.0, 3.0, 4.0]')], maxtime=3, tol='0')),
    ('tolerance-zero-constants', Block([('x', '2.5'), ('y', 'x')], maxtime=2, tol='0.0')),
    ('horizon-zero', Block([('x', '.5*y + 1.'), ('y', '.25*x')], maxtime=0, tol='1e-6')),
]


def units(tier):
    b = BOUNDS[tier]
    m0 = [m for m in rhs_menu(0, 2, b['coefs'], b['consts']) if row_sum(m[1]) <= .5 + 1e-12]
    out = [{'n': 2, 'i0': i} for i in range(len(m0))]
    if tier == 'thorough':
        m3 = [m for m in rhs_menu(0, 3, [-.5, .25], [1.], two_term=False) if row_sum(m[1]) <= .5 + 1e-12]
        out += [{'n': 3, 'i0': i} for i in range(len(m3))]
    return out


def run_unit(unit, tier):
    res = core.new_result()
    dig = core.Digest()
    b = BOUNDS[tier]
    n = unit.get('n', 2)
    if n == 2:
        menus = [[m for m in rhs_menu(i, 2, b['coefs'], b['consts']) if row_sum(m[1]) <= .5 + 1e-12] for i in range(2)]
    else:
        menus = [[m for m in rhs_menu(i, 3, [-.5, .25], [1.], two_term=False) if row_sum(m[1]) <= .5 + 1e-12] for i in range(3)]
    first = menus[0][unit['i0']]
    last = None
    try:
        if n == 2 and unit['i0'] == 0:
            for label, blk in SPECIAL:
                for red in (False, True):
                    case = {'special': label, 'generator_reduction': red}
                    dig.add(('special', label, red))
                    outcome, viols, indet = run_block(blk, red, case)
                    res['evaluations'] += 1
                    res['nontrivial'] += 1
                    res['indeterminate'] += indet
                    core.bump(res['outcomes'], 'special:%s:%s' % (label, outcome))
                    res['violations'].extend(viols[:2])
        for rest in itertools.product(*menus[1:]):
            picks = [first] + list(rest)
            eqs = [(NAMES[i], picks[i][0]) for i in range(n)]
            # alias loops (x=y, y=x, longer cycles) are a documented user error
            alias = dict((NAMES[i], picks[i][0].strip()) for i in range(n) if picks[i][0].strip() in NAMES[:n])
            cyc = False
            for v0 in alias:
                seen_, cur = set(), v0
                while cur in alias and cur not in seen_:
                    seen_.add(cur)
                    cur = alias[cur]
                if cur in seen_:
                    cyc = True
            if cyc:
                continue
            simultaneous = any(NAMES[j] in picks[i][1] and NAMES[i] in picks[j][1] for i in range(n) for j in range(n) if i != j)
            for kind, maxtime, excess, red in itertools.product(DRESS, (1, 3), (False, True), (False, True)):
                if excess and kind in ('plain', 'user-t-endo', 'k-expr', 'loop-names', 'transfer', 'cap-names', 'math-funcs'):
                    continue
                blk = dress(eqs, kind, maxtime, excess)
                case = {'eqs': eqs, 'dress': kind, 'maxtime': maxtime, 'excess': excess, 'generator_reduction': red}
                dig.add((blk.key(), red))
                outcome, viols, indet = run_block(blk, red, case)
                res['evaluations'] += 1
                if simultaneous:
                    res['nontrivial'] += 1
                res['indeterminate'] += indet
                core.bump(res['outcomes'], '%s:%s' % (kind, outcome))
                res['violations'].extend(viols[:2])
                last = blk
    finally:
        shutil.rmtree(scratch_dir(), ignore_errors=True)
    if last is not None:
        res['samples'] = [{'block': last.text()}]
    best = {}
    for v in res['violations']:
        best.setdefault(v['key'], v)
    res['violations'] = list(best.values())
    res['digest'] = dig.hex()
    return res


def replay(case):
    if case.get('special'):
        blk = dict(SPECIAL)[case['special']]
        try:
            return run_block(blk, case['generator_reduction'], case)[1][:1]
        finally:
            shutil.rmtree(scratch_dir(), ignore_errors=True)
    blk = dress([tuple(e) for e in case['eqs']], case['dress'], case['maxtime'], case['excess'])
    try:
        return run_block(blk, case['generator_reduction'], case)[1][:1]
    finally:
        shutil.rmtree(scratch_dir(), ignore_errors=True)
