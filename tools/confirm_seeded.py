#!/usr/bin/env python3
"""
Confirm a property-breaking change delivered by a sub-agent and file it under /verif/seeded/<name>/.

  tools/confirm_seeded.py <property> <dir with patch.diff demo.py note.md> <name>

Steps (all on scratch copies under /var/tmp, removed afterwards):
  1. clean copy of /repo HEAD: demo must exit 0
  2. copy + patch: repository test suite must give 221 passed (only the always-failing test_main fails)
  3. copy + patch: demo must exit 1
"""
import json
import os
import shutil
import subprocess
import sys
import tempfile

PY = '/venv/bin/python'


def sh(cmd, cwd=None):
    p = subprocess.run(cmd, shell=True, cwd=cwd, stdout=subprocess.PIPE, stderr=subprocess.STDOUT, text=True,
                       env=dict(os.environ, PYTHONDONTWRITEBYTECODE='1'))
    return p.returncode, p.stdout


def main():
    prop, src, name = sys.argv[1:4]
    src = os.path.abspath(src)
    base = tempfile.mkdtemp(prefix='sfcv-seed-', dir='/var/tmp')
    try:
        clean = os.path.join(base, 'clean')
        mut = os.path.join(base, 'mut')
        for d in (clean, mut):
            os.makedirs(d)
            rc, out = sh('git -C /repo archive HEAD | tar -x -C %s' % d)
            assert rc == 0, out
        rc, out = sh('patch -p1 -s < %s/patch.diff' % src, cwd=mut)
        if rc != 0:
            print('PATCH DOES NOT APPLY', out)
            return 1
        rc_clean, out_clean = sh('%s %s/demo.py %s' % (PY, src, clean))
        rc_suite, out_suite = sh('%s -m pytest -q -p no:cacheprovider --timeout=900 2>&1 | tail -3' % PY, cwd=mut)
        rc_mut, out_mut = sh('%s %s/demo.py %s' % (PY, src, mut))
        suite_line = [l for l in out_suite.split('\n') if 'passed' in l]
        suite_line = suite_line[-1] if suite_line else out_suite[-200:]
        ok = (rc_clean == 0 and rc_mut == 1 and '221 passed' in suite_line and '1 failed' in suite_line)
        print('%s %s: demo clean rc=%d, demo mutated rc=%d, suite: %s -> %s' % (
            prop, name, rc_clean, rc_mut, suite_line.strip(), 'CONFIRMED' if ok else 'REJECTED'))
        if not ok:
            print(out_clean[-500:])
            print(out_mut[-500:])
            return 1
        dst = os.path.join('/verif/seeded', name)
        os.makedirs(dst, exist_ok=True)
        for f in ('patch.diff', 'demo.py', 'note.md'):
            if os.path.exists(os.path.join(src, f)):
                shutil.copy(os.path.join(src, f), os.path.join(dst, f))
        note = open(os.path.join(src, 'note.md')).read() if os.path.exists(os.path.join(src, 'note.md')) else ''
        meta = {
            'property': prop,
            'name': name,
            'origin': 'sub-agent given only the property text and a scratch worktree of /repo',
            'needs_to_manifest': note[:1500],
            'confirmed': {
                'repo_head': subprocess.check_output('git -C /repo rev-parse --short HEAD', shell=True, text=True).strip(),
                'suite_with_change': suite_line.strip(),
                'demo_on_clean_tree_exit': rc_clean,
                'demo_with_change_exit': rc_mut,
                'demo_with_change_output_tail': out_mut[-600:],
                'commands': [
                    'git -C /repo archive HEAD | tar -x -C <scratch>; patch -p1 < patch.diff',
                    '/venv/bin/python -m pytest -q -p no:cacheprovider --timeout=900   (in <scratch>)',
                    '/venv/bin/python demo.py <scratch>',
                ],
            },
            'detected_by': None,
        }
        with open(os.path.join(dst, 'meta.json'), 'w') as f:
            json.dump(meta, f, indent=1)
        return 0
    finally:
        shutil.rmtree(base, ignore_errors=True)


if __name__ == '__main__':
    sys.exit(main())
