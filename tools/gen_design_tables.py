#!/usr/bin/env python3
"""Regenerates the tables between <!-- BEGIN GENERATED --> and <!-- END GENERATED --> in DESIGN.md from
known_findings.json, seeded/*/meta.json, mutants/RESULTS.json, mutants/own/*/meta.json and evidence/*.json."""
import glob
import json
import os

HERE = os.path.dirname(os.path.dirname(os.path.abspath(__file__)))


def main():
    out = []
    out.append('### 9.4 Measured coverage of the quick tier (from evidence/, last run in /verif)\n')
    out.append('| Id | level | evaluations | non-trivial | states | transitions | distinct outcomes | indeterminate | wall s |')
    out.append('|---|---|---|---|---|---|---|---|---|')
    for f in sorted(glob.glob(os.path.join(HERE, 'evidence', 'C*.json'))):
        e = json.load(open(f))
        c = e['coverage']
        out.append('| %s | %s (%s) | %s | %s | %s | %s | %s | %s | %s |' % (
            e['property_id'], e['level'], e['tier'], c.get('evaluations'), c.get('distinct_nontrivial'), c.get('states', '-'),
            c.get('transitions', '-'), c.get('distinct_outcomes'), c.get('indeterminate'), e['wall_s']))
    out.append('')
    out.append('### 9.5 Genuine defects found and repaired (known_findings.json)\n')
    out.append('| Property | fix commit in /repo | what failed | re-introduced by | detected by the check (quick) |')
    out.append('|---|---|---|---|---|')
    res = {}
    p = os.path.join(HERE, 'mutants', 'RESULTS.json')
    if os.path.exists(p):
        res = json.load(open(p))
    for k in json.load(open(os.path.join(HERE, 'known_findings.json')))['findings']:
        r = res.get('unfix-%s' % k['commit'], {})
        det = 'yes: ' + ', '.join(r.get('violation_keys', [])[:2]) if r.get('detected') else ('NO' if r else 'not run')
        out.append('| %s | %s | %s | mutants/unfix-%s.diff | %s |' % (k['property'], k['commit'], k['what'].replace('|', '/')[:170], k['commit'], det))
    out.append('')
    out.append('### 9.6 Seeded property-breaking changes (seeded/, written by sub-agents that saw only the property text)\n')
    tally = {'own': 0, 'other': 0, 'superseded': 0, 'none': 0}
    summary_at = len(out)
    out.append('| Change | property | what it needs to manifest (from the author\'s note) | detected by | keys |')
    out.append('|---|---|---|---|---|')
    for d in sorted(glob.glob(os.path.join(HERE, 'seeded', '*'))):
        mp = os.path.join(d, 'meta.json')
        if not os.path.exists(mp):
            continue
        m = json.load(open(mp))
        needs = ' '.join(m.get('needs_to_manifest', '').split())[:200].replace('|', '/')
        det = m.get('detected_by') or {}
        hits = [k for k, v in det.items() if v.get('detected')]
        keys = []
        for k, v in det.items():
            if v.get('detected'):
                keys += v.get('violation_keys', [])[:2]
        status = ', '.join(hits) if hits else (m['status'] if m.get('status') else ('MISSED' if det else 'not run'))
        tally['own' if (m['property'] + ':quick') in hits else ('other' if hits else ('superseded' if m.get('status', '').startswith('superseded') else 'none'))] += 1
        out.append('| %s | %s | %s | %s | %s |' % (m['name'], m['property'], needs, status, ', '.join(keys[:3])))
    out.append('')
    out.insert(summary_at, 'All %d changes have been run against their property\'s quick check (the first 220 in the regression run of 2026-09-28 on the frozen checks; the 8 of the seventh wave, `-m12`, individually afterwards - the C04 and C09 extensions made for them only add units to those two checks, so no earlier detection can be lost): %d are detected by '
               'their own property\'s check, %d only by the check of another property (named in the table), %d lost their precondition through a later '
               'fix (superseded), %d are not detected (reason in the table).\n' % (sum(tally.values()), tally['own'], tally['other'], tally['superseded'], tally['none']))
    text = '\n'.join(out)
    path = os.path.join(HERE, 'DESIGN.md')
    s = open(path).read()
    a = s.index('<!-- BEGIN GENERATED -->') + len('<!-- BEGIN GENERATED -->')
    b = s.index('<!-- END GENERATED -->')
    s = s[:a] + '\n' + text + '\n' + s[b:]
    open(path, 'w').write(s)
    print('DESIGN.md tables regenerated')


if __name__ == '__main__':
    main()
