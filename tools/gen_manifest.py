#!/usr/bin/env python3
"""Regenerates /verif/MANIFEST.json from the table below (one entry per property whose check exists)."""
import json
import os

HERE = os.path.dirname(os.path.dirname(os.path.abspath(__file__)))

CHECKS = {
    'C12': dict(
        category='model_checking', design_ref='DESIGN.md section 3, C12',
        technique='explicit-state BFS over AddTerm histories on the real Equation class with state dedup, reference-model comparison at every transition; exhaustive list enumeration for create_equation_from_terms',
        text='Every AddTerm history up to the depth bound from every leading form is executed on the real Equation/Term classes; each '
             'reached state is compared (exact rationals, 3 prime valuations) with leading expression + signed sum of the added terms. '
             'All term lists up to the length bound go through create_equation_from_terms (value preserved, argument unchanged).',
        note='Trusted: stdlib ast/fractions and the 200-line evaluator in mc/exact.py. Bounded: term alphabet of 18 spellings, 38 leading forms, depth 3 (quick) / 5 (thorough); arithmetic leading expressions only.'),
}

NOT_YET = 'check not built yet in this session (planned, see DESIGN.md section 3)'


def main():
    props = [json.loads(l) for l in open(os.path.join(HERE, 'properties.jsonl'))]
    checks = []
    na = []
    for p in props:
        pid = p['id']
        c = CHECKS.get(pid)
        if c is None or not os.path.exists(os.path.join(HERE, 'props', pid.lower() + '.py')):
            na.append({'property_id': pid, 'reason': NOT_YET})
            continue
        checks.append({
            'property_id': pid,
            'quick_cmd': './check %s --tier quick' % pid,
            'thorough_cmd': './check %s --tier thorough' % pid,
            'evidence_file': 'evidence/%s.json' % pid,
            'replay_cmd_template': './check --replay {path}',
            'engine': 'mc-explorer',
            'level_claimed': {'category': c['category'], 'text': c['text'], 'design_ref': c['design_ref']},
            'level_note': c['note'],
            'technique': c['technique'],
        })
    man = {
        'version': 1,
        'setup_cmd': 'mkdir -p evidence replays && /venv/bin/python -c "import sys; assert sys.version_info[:2] >= (3, 8)"',
        'hooks': {
            'guard': 'BRIANR747_SFC_MODELS_VERIF',
            'enable': 'no hooks are needed: every observation point is public API; the checks import sfc_models from the working tree of /repo (or $SFC_REPO) in a fresh interpreter',
            'baseline_off_cmd': 'cd /repo && /venv/bin/python -m pytest -ra -q -p no:cacheprovider --timeout=900 --continue-on-collection-errors',
            'source_commits': [],
            'add_only': True,
        },
        'engines': [{
            'name': 'mc-explorer', 'path': 'mc/',
            'serves_properties': [c['property_id'] for c in checks],
            'kind_free_text': 'hand-written explicit-state / bounded-exhaustive explorer for Python (history BFS with canonical-state dedup, '
                              'deviation-bounded enumeration of model topologies and equation blocks, 16-process deterministic partition), '
                              'with an independent exact rational reader/solver of the emitted equations as oracle',
        }],
        'checks': checks,
        'not_applicable': na,
        'notes': 'Known findings and fixed defects: known_findings.json. Seeded property-breaking changes: seeded/. '
                 'SFC_REPO=<dir> points a check at another tree (used only for mutant demonstrations).',
    }
    with open(os.path.join(HERE, 'MANIFEST.json'), 'w') as f:
        json.dump(man, f, indent=1)
    print('MANIFEST.json: %d checks, %d not yet claimed' % (len(checks), len(na)))


if __name__ == '__main__':
    main()
