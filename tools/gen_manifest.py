#!/usr/bin/env python3
"""Regenerates /verif/MANIFEST.json from the table below (one entry per property whose check exists)."""
import json
import os

HERE = os.path.dirname(os.path.dirname(os.path.abspath(__file__)))

CHECKS = {
    'C06': dict(
        category='model_checking', design_ref='DESIGN.md section 3, C06',
        technique='explicit-state BFS over call histories on a real Sector (replayed on fresh objects), dedup on (implementation state, reference state), ledger reference model compared after every transition',
        text='All histories up to depth 3 (quick) / 4 (thorough) over 59 operations (AddCashFlow with 14 term spellings incl. empty, blank and padded x defining expression x income flag, 3 income exclusions, exclusions / flows on a same-coded sector of a second country, '
             '12 pre-existing definitions incl. three spellings of zero): F == LAG_F + signed sum, INC == signed sum of non-excluded income flows, definition rule; emitted F/INC rows for depth <= 2.',
        note='Trusted: mc/exact evaluator, the 15-line ledger. Exclusions are read as non-retroactive.'),
    'C09': dict(
        category='exploration', design_ref='DESIGN.md section 3, C09',
        technique='bounded-exhaustive enumeration of full Cartesian parameter grids for the bundled builders, each point solved by the library and compared period by period with a closed-form recursion over exact rationals (gap oracle)',
        text='Full Cartesian grids: SIM / SIMEX1 (alpha1 x alpha2 x theta x 4 G-paths x initial wealth x initial expectation), PC (+ lambda0..2, r-path, initial stocks none/book/all-cash), ModelSIMiterative; the spending and interest-rate paths given as text, as an equation, after the book\'s own path, and as Python list / tuple objects of floats without a short decimal form; '
             'Y, T, YD, C, H/V, bills, money for k = 1..horizon at solver tolerance 1e-12 and at the default tolerance; SIM and SIMEX1 embedded in one Model; the builders\' own book configurations (k=0 stocks exact); '
             'ModelSIMiterative through main() and RunMethod2 incl. the wealth-change series.',
        note='Grid points only (<= 4-decimal parameters); ConvergenceError counts as indeterminate. PC: household-side series. A RunMethod2 give-up within its own 100-sweep cap is a violation only where a reference iteration of the same scheme settles within 60 sweeps.'),
    'C13': dict(
        category='exploration', design_ref='DESIGN.md section 3, C13',
        technique='bounded-exhaustive enumeration of (expression, renaming map) pairs for the three public utilities and for their callers (Term/Equation/EquationBlock.ReplaceTokensFromLookup, the alias substitution of the reduction, the qualification step of Sector._CreateFinalEquations, EquationParser.GenerateTokenList, the model-level alias fix-up, a caller editing a returned name list); independent regex scanner + evaluation under renamed environments',
        text='Several million pairs: all expressions of <= 3 tokens over the full atom alphabet and <= 5 tokens over a reduced one, compact and padded, x all maps of size <= 2 (swaps, chains, prefixes, absent names, placeholder-shaped targets).',
        note='Trusted: the 10-line scanner regex and Python eval. Output spacing is free; comparison is token-wise.'),
    'C16': dict(
        category='model_checking', design_ref='DESIGN.md section 3, C16',
        technique='exhaustive enumeration of call histories (retrieval / flag changes / caller-side mutation / rendering) replayed on freshly solved real objects; immutable snapshot reference compared after every transition',
        text='All histories (depth 3 quick / 4 thorough over 37 operations, incl. renderings with the default format, a cutoff flag of 0 and unrelated holders / a traced solver created elsewhere, on Model.GetTimeSeries / EquationSolver / TimeSeriesHolder, depth 4 on a BaseSolver subclass): the same (one level shallower) on a solver stepped half-way whose stored series are of unequal length: return value == snapshot slice, stored holders == snapshot, rendering == independent rendering of the snapshot and repeatable.',
        note='Trusted: the deep snapshot and the 10-line reference renderer.'),
    'C17': dict(
        category='model_checking', design_ref='DESIGN.md section 3, C17',
        technique='exhaustive enumeration of job sequences executed inside one interpreter (process-wide counters and logger state leak between jobs) against baselines computed in separate fresh processes',
        text='All pairs over 23 jobs (models, blocks, a plain re-solve after a steady-state solve, a block that does not converge, re-solves, re-parses, a second Model() created mid-build, shared function names, in-place exclusion list) x 3 diagnostics settings and all triples (thorough: 4-sequences) over a reduced alphabet of 8 jobs; each job\'s complete TimeSeries must equal its fresh-process baseline; re-parsed solvers report exactly the new block.',
        note='Two baseline interpreters per job are diffed first. Worker processes run many sequences back to back, which only lengthens the histories.'),
    'C19': dict(
        category='exploration', design_ref='DESIGN.md section 3, C19',
        technique='bounded-exhaustive table enumeration on the real TimeSeriesHolder and solver wrapper, parsed back by an independent TSV parser',
        text='Every subset of <= 4 of 11 series names x 9 value rotations x 3 length profiles x 5 formats, and the history render -> store another series -> render; one solver object used for two blocks; horizons {0,1,4} imposed from outside (solver attribute before parsing, Model.MaxTime); another holder with its own axis name elsewhere; solved blocks through EquationSolver.GenerateCSVtext(format), holder and step-trace; header, order, row count, every cell.',
        note='Alphabetical = code-point or case-insensitive order.'),
    'C02': dict(
        category='exploration', design_ref='DESIGN.md section 3, C02',
        technique='bounded-exhaustive enumeration of equation blocks x solver configurations run on the real EquationSolver; three-valued residual oracle derived from the stop test',
        text='Every block of the menu product (2 and 3 variables, plain and dressed with lag/exogenous/decorative chain/alias/initial condition) x reduction x tolerance x cap, plus '
             'divergence, transient-error, non-linear and user-function families, one solver re-used for two systems, two solvers registering different functions under one name, steady-state search in front of a tight solve, tolerance given through the solver attribute after parsing (incl. 0 on a weakly coupled system), decorative values that are NaN, a user function looked up by a text label next to an alias: on a normal return every value must be finite, lag/exogenous/derived-only variables exact, simultaneous residuals <= 2B.',
        note='Trusted: the bound B (proved from the documented stop test), Python eval as the meaning of a right-hand side. Gap 2B/20B; zero indeterminate cases on the current tree.'),
    'C03': dict(
        category='exploration', design_ref='DESIGN.md section 3, C03',
        technique='bounded-exhaustive differential enumeration: every block of the alias/decorative feature product solved with reduction on and off by the real solver, series compared value by value',
        text='Every block of the feature product: core x alias target kind x chain length x declaration order x alias user x decorative tree x initial-condition position x lag source; same variable set, '
             'k=0 exactly equal, k>=1 bit-for-bit (acyclic) or within a gap at tolerance 1e-10 (cyclic); reduction applied twice; steady-state search in front; int-valued decorative constants; a user function with a text label (string literals through the reduction); blocks written with the initial-condition lines first; a NaN read-out.',
        note='Alias cycles excluded (documented user error). Trusted: nothing beyond the two runs of the implementation itself.'),
    'C05': dict(
        category='model_checking', design_ref='DESIGN.md section 3, C05',
        technique='explicit enumeration of construction histories (request point x variable x owner x embedding places x country configuration) on the real objects + all topology specs; closure/canonical-name/placeholder/meaning oracle on the emitted text via the independent reader',
        text='Every construction history of the product: GetVariableName requested right after the sector exists / after all sectors / after early full-code generation (LogInfo), embedded in up to 2 (quick) / 3 (thorough) of 13 places (incl. two placeholders in one row, a name clash, a caller editing a returned list), '
             'with one country, two countries, an external sector, a country / external sector added after the early generation, or an unrelated Model started mid-way; sector-local variables spelled like the time names; plus every topology spec within the deviation bound. Every left-hand side once, canonical names, closed, no _<id>__ token, meaning preserved (judged through the record kept by the harness of which variable every handed-out name stands for; one name for two variables is a violation).',
        note='Trusted: mc/exact.read_block and evaluator. A name that was canonical when handed out and is embedded by the user before a further country is added cannot be rewritten by any library; that history is outside the alphabet.'),
    'C10': dict(
        category='exploration', design_ref='DESIGN.md section 3, C10',
        technique='bounded-exhaustive enumeration of input forms (exogenous specification x length x initial condition position/value x horizon source x time variable x reduction) on the real solver and Model; exact == oracle',
        text='Every case of the input-form product through EquationSolver and Model (incl. one solver re-used for two blocks): lengths horizon+1, k axis, exogenous series equal to the supplied prefix, k=0 equal to the stated initial condition for 7 kinds of variable (9 significant digits through Model, initial gold stock), lag identity (also for sources named like the lag spelling), t == k, exogenous specifications as strings and as Python objects, a path specified twice, a horizon set on the solver object of the model, '
             'short/unevaluable input rejected with no period produced.',
        note='An int scalar may be rejected or broadcast. Rejection = any exception.'),
    'C11': dict(
        category='exploration', design_ref='DESIGN.md section 3, C11',
        technique='bounded-exhaustive enumeration of failure families x caps x tolerances (sweep count read from the public step trace, wall-clock watchdog), of all small affine contractions, and of the complete stdlib name lists',
        text='(a) 11 failure families (also with the steady-state search in front) switched on in period 1..3 x 7 caps x 2 tolerances x reduction: ValueError/ConvergenceError (a normal return with non-finite values is a violation; the same failure with the failing period traced), <= cap+1 sweeps, equal-length series identical to the shorter-horizon solve; '
             '(b) all two-variable contractions of the alphabet + n=12 worst cases + non-linear contractions solved within the default cap; (c) 251 names x 3 positions + 182 RHS tokens x reduction x entry point, 16 ill-formed declarations (incl. ambiguous suppliers without balance, foreign residual supplier, currencies whose codes contain one another) refused with no numbers.',
        note='A case exceeding 20 s wall-clock counts as unbounded work. Contraction => convergence is covered on the stated grid, not proved over the reals.'),
    'C14': dict(
        category='exploration', design_ref='DESIGN.md section 3, C14',
        technique='bounded-exhaustive enumeration of line orders x spacings x lag spellings x hostile comments; real EquationParser compared with the independent classifier; comment-free twin differential; Model description differential',
        text='All permutations of 6-line endogenous sections (incl. names ending in 0, a variable T, arithmetic on the time axis next to lag spellings, a user time axis, comment-only lines containing "=", malformed lines), 3 spacings, 3 lag spellings, 17 hostile comment texts (incl. VT/FF/CR) on every line, '
             '8 marker spellings, every block also on a parser object that parsed and reduced another block before (all parser lists and bookkeeping compared), run-parameter lines that are not integer literals, several malformed lines per block, descriptions/long names through Model.',
        note='Trusted: mc/exact.read_block (strips the comment first). Lags inside larger expressions and names containing the marker word are outside the alphabet (as in the property).'),
    'C15': dict(
        category='exploration', design_ref='DESIGN.md section 3, C15',
        technique='bounded-exhaustive enumeration of one-/two-state recursive systems x search settings on the real CalculateInitialSteadyState; accepted states stepped once more with exogenous frozen; deep snapshot comparison',
        text='Every (system, settings) pair of the alphabet (one-/two-state systems with read-outs, bare one-state systems incl. quadratic and overflowing ones; horizons 1, 2, 3, 20, 200; tolerances 1e-3, 1e-4, 1e-9; an exogenous input that steps after k=0; a within-period loop at a tight per-period tolerance; read-outs named like the excluded time names): acceptance implies every installed value is finite and no non-excluded variable moves by more than 2 tol (abs or rel; violated only if both >= 20 tol), rejection is NoEquilibriumError/ValueError, solver inputs untouched.',
        note='Tolerances {1e-4, 1e-3}: with a looser steady-state tolerance the search solver (which uses it as its sweep tolerance) leaves read-outs one sweep stale, which would make the verdict depend on solver accuracy rather than on steadiness.'),
    'C20': dict(
        category='exploration', design_ref='DESIGN.md section 3, C20',
        technique='bounded-exhaustive enumeration of equation blocks -> real IterativeMachineGenerator -> import and run the emitted module (twice per generator object); residual/exactness/table oracle, differential against the in-process solver',
        text='Every (block, configuration) pair of the menu product (dresses incl. loop-state names, upper-case look-alikes of the reserved names, every smooth math function and equal-and-opposite transfers; tolerance 0 on loop-free blocks; horizon 0), two emissions each, RunOneStep-then-main on the emitted class, one generator object re-used for a second block: module runs, MaxTime+1 values, residuals <= 2B, exogenous exact, agreement with EquationSolver from equal k=0 values, k=0 values as stated, header t-first without duplicates.',
        note='Blocks restricted to contraction factor <= 0.5 (the generated solver has no damping). Files live under /var/tmp/sfcv-c20-<pid> and are removed.'),
    'C01': dict(
        category='model_checking', design_ref='DESIGN.md section 3, C01',
        technique='deviation-bounded exhaustive enumeration of model topologies built with the real constructors; exact rational solution of the emitted equations; conservation sum checked in every (spec, period) state',
        text='Every well-formed topology within the deviation bound of the base economy (5 families: one country, federated zone, two and three '
             'currency zones with external sector, two zones without) is built through the public constructors (also with read-only look-ups made while the model is being built); Model.main() emits the equations, '
             'an independent reader + exact Fraction solver solves periods 1..3, and for every currency zone sum dF + FX NET must be exactly 0; the model\'s zone membership must equal the declared currencies.',
        note='Trusted: mc/exact.py (reader, affine solver; cross-checked against the library float solution on every converged case), mc/topo.py grammar. '
             'Bounded: deviation bound 2 (quick) / 3 (thorough), horizon 3, two-point parameter alphabets; the non-affine PC-style weight uses a float gap oracle.'),
    'C04': dict(
        category='model_checking', design_ref='DESIGN.md section 3, C04',
        technique='deviation-bounded exhaustive enumeration of model topologies; exact rational solution; per-market identities checked in every (spec, market, period) state with demander sets derived from the spec',
        text='For every spec in the bound and every goods/labour/money/deposit market: DEM = sum of the demanders computed from the spec, SUP = DEM, '
             'supplier assignments sum to SUP, each supplier variable and F inflow equals its assignment (x cross rate), each demander F holds -DEM, '
             'asset demands sum to F, defaulted money demand equals F - all as exact rationals.',
        note='Trusted: mc/exact.py, mc/topo.py. Bounded: deviation bound 2/3, horizon 3; up to 2 suppliers per goods market in the grammar, plus units with 3 suppliers (home producer + two foreign producers of the same short code, each with its own quota) on the three-zone economy in every tier; up to 3 assets per portfolio.'),
    'C07': dict(
        category='model_checking', design_ref='DESIGN.md section 3, C07',
        technique='exhaustive enumeration of multi-currency topologies x exchange-rate paths; exact rational solution; term-level and FX-net identities in every (spec, period) state; negative family without ExternalSector',
        text='All two-/three-zone specs in the bound with a cross-currency gift (explicit or default income flags), import supplier, (also with the foreign producer as residual supplier or on a zero quota), gold government or build-time gold purchase at a moving non-unit gold price, with unit / constant / time-varying '
             'rates: receiver credited amount*XR_s/XR_r, sender debited, sum NET_c*XR_c + NET_NUMERAIRE == 0, numeraire position 0 for paired flows, cross-rate '
             'variables correct, gold market side (NETOZ, GOLDPRICE) correct; the same specs without ExternalSector must raise a LogicError with no series produced.',
        note='Trusted: mc/exact.py, mc/topo.py. Bounded: deviation bound 2/3 (two zones), 1/2 (three zones), horizon 3.'),
    'C08': dict(
        category='model_checking', design_ref='DESIGN.md section 3, C08',
        technique='exhaustive permutation of construction histories (all dependency-respecting declaration orders of a country, or all single moves/transpositions/reversal for large countries); states reached through different histories compared by exact solution',
        text='20 structurally different economies (three with non-default sector and market codes, one with sector codes ending in a market code) (one- and two-country, federated, gold standard); every permutation of the sector declarations of a country (<= 6 declarations quick, <= 7 thorough) and '
             'all O(n^2) moves for larger ones are executed on the real constructors; in the two-country economies the declarations of the two countries are also interleaved (quick: block insertions, alternation, single cross moves; thorough: every merge) under both creation orders of the countries; '
             'the exact rational solution of each emitted system must equal that of the canonical order.',
        note='Trusted: mc/exact.py, mc/topo.py. Post-declaration calls stay in a fixed tail; all Country objects exist before the first sector is declared.'),
    'C18': dict(
        category='model_checking', design_ref='DESIGN.md section 3, C18',
        technique='exhaustive enumeration of (economy, renaming map) pairs and of ordered sets of embedded economies; exact rational differential between the renamed / joint build and the base / stand-alone build',
        text='16 economies x all renaming maps changing <= 2 (quick) / 3 (thorough) codes (incl. prefixes of other codes and code swaps), single- and multi-country; all ordered '
             'selections of 2..3 economies from 5 (currency strings containing one another) plus two treasury+central-bank economies together, two economies whose codes differ only in letter case (string API), an unrelated Model() started mid-declaration x external sector none/first/last; bundled builders SIM/SIMEX1/PC embedded next to another country; '
             'solutions must coincide variable by variable under the name map / prefix rule, equations must not reference another economy.',
        note='Trusted: mc/exact.py, mc/topo.py, the name-map functions in props/c18.py. The PC builder (non-affine) is compared on float series at tolerance 1e-12 with a gap oracle.'),
    'C12': dict(
        category='model_checking', design_ref='DESIGN.md section 3, C12',
        technique='explicit-state BFS over AddTerm histories on the real Equation class with state dedup, reference-model comparison at every transition; exhaustive list enumeration for create_equation_from_terms',
        text='Every AddTerm history up to the depth bound from every leading form is executed on the real Equation/Term classes; each '
             'reached state is compared (exact rationals, 3 prime valuations) with leading expression + signed sum of the added terms. '
             'All term lists up to the length bound go through create_equation_from_terms (value preserved, argument unchanged). Sector-variable histories: additions interleaved with renaming and replacement of the right-hand side. Constants with more than six significant digits, bracketed and comparison leading expressions.',
        note='Trusted: stdlib ast/fractions and the 200-line evaluator in mc/exact.py. Bounded: term alphabet of 23 spellings, 51 leading forms, depth 3 (quick) / 4 (thorough); Term-object histories over 2 equations to depth 4/5; arithmetic leading expressions only.'),
}

NOT_YET = 'check not built yet (see DESIGN.md section 3)'


def main():
    props = [json.loads(l) for l in open(os.path.join(HERE, 'properties.jsonl'))]
    checks = []
    na = []
    for p in props:
        pid = p['id']
        c = CHECKS.get(pid)
        if c is None or not os.path.exists(os.path.join(HERE, 'props', pid.lower() + '.py')):
            na.append({'property_id': pid, 'reason': NOT_YET})
            continue
        checks.append({
            'property_id': pid,
            'quick_cmd': './check %s --tier quick' % pid,
            'thorough_cmd': './check %s --tier thorough' % pid,
            'evidence_file': 'evidence/%s.json' % pid,
            'replay_cmd_template': './check --replay {path}',
            'engine': 'mc-explorer',
            'level_claimed': {'category': c['category'], 'text': c['text'], 'design_ref': c['design_ref']},
            'level_note': c['note'],
            'technique': c['technique'],
        })
    man = {
        'version': 1,
        'setup_cmd': 'mkdir -p evidence replays && /venv/bin/python -c "import sys; assert sys.version_info[:2] >= (3, 8)"',
        'hooks': {
            'guard': 'BRIANR747_SFC_MODELS_VERIF',
            'enable': 'no hooks are needed: every observation point is public API; the checks import sfc_models from the working tree of /repo (or $SFC_REPO) in a fresh interpreter',
            'baseline_off_cmd': 'cd /repo && /venv/bin/python -m pytest -ra -q -p no:cacheprovider --timeout=900 --continue-on-collection-errors',
            'source_commits': [],
            'add_only': True,
        },
        'engines': [{
            'name': 'mc-explorer', 'path': 'mc/',
            'serves_properties': [c['property_id'] for c in checks],
            'kind_free_text': 'hand-written explicit-state / bounded-exhaustive explorer for Python (history BFS with canonical-state dedup, '
                              'deviation-bounded enumeration of model topologies and equation blocks, 16-process deterministic partition), '
                              'with an independent exact rational reader/solver of the emitted equations as oracle',
        }],
        'checks': checks,
        'not_applicable': na,
        'notes': 'Known findings and fixed defects: known_findings.json. Seeded property-breaking changes: seeded/. '
                 'SFC_REPO=<dir> points a check at another tree (used only for mutant demonstrations).',
    }
    with open(os.path.join(HERE, 'MANIFEST.json'), 'w') as f:
        json.dump(man, f, indent=1)
    print('MANIFEST.json: %d checks, %d not yet claimed' % (len(checks), len(na)))


if __name__ == '__main__':
    main()
