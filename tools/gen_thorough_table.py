#!/usr/bin/env python3
"""Rebuild the table of DESIGN.md section 9.4b from the logs of the thorough sweeps (vp run logs given on the command line,
later logs win)."""
import os
import re
import sys

HERE = os.path.dirname(os.path.dirname(os.path.abspath(__file__)))


def main():
    rows = {}
    for log in sys.argv[1:]:
        for line in open(log, errors='replace'):
            m = re.match(r'(C\d\d) thorough: (.*)', line)
            if not m:
                continue
            kv = dict(x.split('=') for x in m.group(2).split() if '=' in x)
            rows[m.group(1)] = kv
    out = ['| Id | evaluations | states | transitions | violations | wall s |', '|---|---|---|---|---|---|']
    for pid in sorted(rows):
        kv = rows[pid]
        out.append('| %s | %s | %s | %s | %s | %s |' % (pid, kv.get('evaluations'), kv.get('states', '-'), kv.get('transitions', '-'),
                                                      kv.get('violations'), kv.get('wall', '').rstrip('s')))
    p = os.path.join(HERE, 'DESIGN.md')
    s = open(p).read()
    a = s.index('### 9.4b')
    b = s.index('### 9.6b')
    head = ('### 9.4b Thorough tier (every check run at its final version on 2026-09-28, machine shared with other jobs, so the wall times '
            'are upper bounds; all 20 exit 0)\n\n')
    s = s[:a] + head + '\n'.join(out) + '\n\n' + s[b:]
    open(p, 'w').write(s)
    print('%d rows' % len(rows))


if __name__ == '__main__':
    main()
