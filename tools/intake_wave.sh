#!/bin/bash
# tools/intake_wave.sh <worktree prefix> <first index> <ID>...   confirm the deliverables of a wave (m1 -> m<first>, m2 -> m<first+1>) and run the property's quick check on each
prefix=$1; first=$2; shift 2
cd "$(dirname "$0")/.."
for id in "$@"; do
  n=$first
  for m in m1 m2; do
    src=/tmp/$prefix-$id/_out/$m
    if [ -f $src/patch.diff ]; then
      python3 tools/confirm_seeded.py $id $src $id-m$n | tail -1
    fi
    n=$((n+1))
  done
  python3 tools/run_seeded.py $id quick --only m$first,m$((first+1))
done
