#!/bin/bash
# tools/make_unfix.sh <commit>  -> mutants/unfix-<commit>.diff (reverse of a fix commit against the current HEAD)
set -e
c=$(git -C /repo rev-parse --short $1)
D=/var/tmp/sfcv-u$$; rm -rf $D $D.orig; mkdir $D $D.orig
git -C /repo archive HEAD | tar -x -C $D; git -C /repo archive HEAD | tar -x -C $D.orig
(cd $D && git -C /repo show $c -- . | patch --no-backup-if-mismatch -R -p1 -s)
(cd /var/tmp && diff -ruN $(basename $D.orig)/sfc_models $(basename $D)/sfc_models | grep -v '^diff -ruN' \
  | sed "s#^--- $(basename $D.orig)/\([^\t]*\).*#--- a/\1#; s#^+++ $(basename $D)/\([^\t]*\).*#+++ b/\1#" > /verif/mutants/unfix-$c.diff) || true
rm -rf $D $D.orig
wc -l /verif/mutants/unfix-$c.diff
