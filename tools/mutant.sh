#!/bin/bash
# Run a check against a scratch copy of /repo with a change applied; the copy is removed afterwards.
#   tools/mutant.sh <ID> <tier> patch <file.diff>      apply a patch
#   tools/mutant.sh <ID> <tier> revert <commit>        undo one commit (e.g. a "fix:" commit)
# Prints the check's output; exit status is the check's.
set -u
ID=$1; TIER=$2; MODE=$3; ARG=$4
D=/var/tmp/sfcv-$$-$RANDOM
mkdir -p $D
git -C /repo archive HEAD | tar -x -C $D
# uncommitted working tree edits of /repo are part of "the current tree"
git -C /repo diff HEAD -- . | (cd $D && patch -p1 -s >/dev/null 2>&1 || true)
if [ "$MODE" = patch ]; then
  (cd $D && patch -p1 -s < "$ARG") || { echo "patch failed"; rm -rf $D; exit 3; }
elif [ "$MODE" = revert ]; then
  git -C /repo show "$ARG" -- . | (cd $D && patch -R -p1 -s) || { echo "revert failed"; rm -rf $D; exit 3; }
elif [ "$MODE" = none ]; then :
fi
if [ "${RUN_SUITE:-0}" = 1 ]; then
  (cd $D && PYTHONDONTWRITEBYTECODE=1 /venv/bin/python -m pytest -q -p no:cacheprovider --timeout=900 2>&1 | tail -1)
fi
cd /verif && SFC_REPO=$D VERIF_NOEVIDENCE=1 ./check $ID --tier $TIER
rc=$?
rm -rf $D
exit $rc
