#!/bin/bash
# Run a check against a scratch copy of /repo with a change applied; the copy is removed afterwards.
#   tools/mutant.sh <ID> <tier> patch <file.diff>      apply a patch
#   tools/mutant.sh <ID> <tier> revert <commit>        undo one commit (e.g. a "fix:" commit)
# Prints the check's output; exit status is the check's.
set -u
ID=$1; TIER=$2; MODE=$3; ARG=$4
D=/var/tmp/sfcv-$$-$RANDOM
mkdir -p $D
git -C /repo archive HEAD | tar -x -C $D
# uncommitted working tree edits of /repo are part of "the current tree"
git -C /repo diff HEAD -- . | (cd $D && patch -p1 -s >/dev/null 2>&1 || true)
if [ "$MODE" = patch ]; then
  (cd $D && patch -p1 -s < "$(cd /verif && realpath "$ARG")") || { echo "patch failed"; rm -rf $D; exit 3; }
elif [ "$MODE" = revert ]; then
  # three-way revert in a throw-away worktree (later fixes may touch neighbouring lines), result copied to $D
  W=/var/tmp/sfcv-wt-$$-$RANDOM
  git -C /repo worktree add -q --detach $W HEAD && git -C $W revert --no-commit "$ARG" >/dev/null 2>&1 \
    || { echo "revert failed"; git -C /repo worktree remove --force $W; rm -rf $D; exit 3; }
  rm -rf $D/sfc_models && cp -r $W/sfc_models $D/sfc_models
  git -C /repo worktree remove --force $W
elif [ "$MODE" = none ]; then :
fi
if [ "${RUN_SUITE:-0}" = 1 ]; then
  (cd $D && PYTHONDONTWRITEBYTECODE=1 /venv/bin/python -m pytest -q -p no:cacheprovider --timeout=900 2>&1 | tail -1)
fi
cd /verif && SFC_REPO=$D VERIF_NOEVIDENCE=1 ./check $ID --tier $TIER
rc=$?
rm -rf $D
exit $rc
