#!/usr/bin/env python3
"""
Mechanical mutation analysis of the library against (1) its own test suite and (2) the property checks.

  tools/mutate.py gen                      enumerate mutants -> mutation/mutants.jsonl
  tools/mutate.py suite [N procs]          run the repository's suite on every mutant (scratch copies), record survivors
  tools/mutate.py checks [first] [count]   run the mapped quick checks on the survivors (stops at the first detection)
  tools/mutate.py report                   summary -> mutation/REPORT.md

A mutant is one single-line edit (operator table below) of a library source line outside comments and docstrings.
Everything runs on scratch copies under /var/tmp/sfcv-mut-*; /repo is never touched.
"""
import json
import os
import re
import shutil
import subprocess
import sys
import tempfile
from concurrent.futures import ProcessPoolExecutor

HERE = os.path.dirname(os.path.dirname(os.path.abspath(__file__)))
OUT = os.path.join(HERE, 'mutation')
PY = '/venv/bin/python'

FILES = {
    'sfc_models/equation.py': ['C12', 'C13', 'C06', 'C05'],
    'sfc_models/utils.py': ['C13', 'C12', 'C19', 'C16', 'C11', 'C14'],
    'sfc_models/equation_parser.py': ['C14', 'C03', 'C11', 'C10', 'C02', 'C20'],
    'sfc_models/equation_solver.py': ['C10', 'C11', 'C03', 'C02', 'C15', 'C16', 'C17', 'C19'],
    'sfc_models/models.py': ['C16', 'C10', 'C07', 'C05', 'C01', 'C18', 'C08', 'C11'],
    'sfc_models/sector.py': ['C06', 'C07', 'C04', 'C01', 'C05', 'C08', 'C11'],
    'sfc_models/sector_definitions.py': ['C07', 'C04', 'C01', 'C09', 'C05', 'C08', 'C18', 'C10'],
    'sfc_models/external.py': ['C07', 'C01', 'C18', 'C10', 'C04'],
    'sfc_models/base_solver.py': ['C16', 'C20'],
    'sfc_models/gl_book/chapter3.py': ['C09', 'C18'],
    'sfc_models/gl_book/chapter4.py': ['C09', 'C18'],
    'sfc_models/gl_book/model_SIM_iterative.py': ['C09'],
    'sfc_models/gl_book/__init__.py': ['C09', 'C18'],
    'sfc_models/deprecated/iterative_machine_generator.py': ['C20'],
}

# (name, regex, replacement) - applied to one occurrence per mutant
OPS = [
    ('eq->ne', r'(?<![=!<>])==(?!=)', '!='),
    ('ne->eq', r'!=', '=='),
    ('lt->le', r'(?<![<>=!])<(?![=<>])', '<='),
    ('gt->ge', r'(?<![<>=!-])>(?![=<>])', '>='),
    ('le->lt', r'<=', '<'),
    ('ge->gt', r'>=', '>'),
    ('and->or', r'\band\b', 'or'),
    ('or->and', r'\bor\b', 'and'),
    ('not-removed', r'\bnot\s+', ''),
    ('True->False', r'\bTrue\b', 'False'),
    ('False->True', r'\bFalse\b', 'True'),
    ('plus->minus', r"(?<=['\"])\+(?=['\" ])", '-'),
    ('minus->plus', r"(?<=['\"])-(?=['\" ])", '+'),
    ('arith+->-', r'(?<=[\w\)\]]) \+ (?=[\w\(\[])', ' - '),
    ('arith-->+', r'(?<=[\w\)\]]) - (?=[\w\(\[])', ' + '),
    ('+1->+0', r'\+ ?1\b(?!\.)', '+ 0'),
    ('-1->-0', r'- ?1\b(?!\.)', '- 0'),
    ('[0]->[1]', r'\[0\]', '[1]'),
    ('[-1]->[-2]', r'\[-1\]', '[-2]'),
    ('0:->1:', r'\[0:', '[1:'),
    ('num-up', r'(?<![\w.])(\d+\.\d*|\d*\.\d+|\d+)(?![\w.])', lambda m: repr(float(m.group(1)) * 2 + 1) if '.' in m.group(1) else str(int(m.group(1)) + 1)),
    ('continue->pass', r'^\s*continue\s*$', None),
    ('break->pass', r'^\s*break\s*$', None),
    ('return-early', None, None),     # handled specially: duplicate "return" before a statement? (not used)
    ('stmt-deleted', None, None),     # handled specially
    ('lower-removed', r'\.lower\(\)', ''),
    ('strip-removed', r'\.strip\(\)', ''),
    ('is_income-flip', r'is_income=(True|False)', lambda m: 'is_income=' + ('False' if m.group(1) == 'True' else 'True')),
    ('list-copy-removed', r'\blist\((self\.[A-Za-z_\.\[\]]+)\)', lambda m: m.group(1)),
    ('abs-removed', r'\babs\(([^()]+)\)', lambda m: '(' + m.group(1) + ')'),
    ('max->min', r'\bmax\(', 'min('),
    ('min->max', r'\bmin\(', 'max('),
]

SIMPLE_STMT = re.compile(r'^\s+(self\.[\w\.\[\]\'\"]+\.(append|extend|remove|AddTerm|AddCashFlow|AddVariable|AddEquation|SetEquationRightHandSide|'
                         r'AddTermToEquation|AddInitialCondition|RegisterCashFlow|_SendMoney|AddFunction|AddSupplier|pop|sort|reverse)\(.*\)|'
                         r'[\w\.\[\]\'\"]+\.(AddCashFlow|AddVariable|AddTerm|AddTermToEquation|SetEquationRightHandSide|append|AddInitialCondition|'
                         r'_SendMoney|SetGoldPurchases|RegisterCurrency|AddCashFlowIncomeExclusion)\(.*\)|'
                         r'[\w\.\[\]]+ (\+=|-=|\*=) .+|self\.\w+ = .+)\s*$')


def code_lines(text):
    """Indices of lines that are code (not comments, not inside docstrings / triple-quoted blocks)."""
    out = []
    in_doc = False
    delim = None
    for i, line in enumerate(text.split('\n')):
        s = line.strip()
        if in_doc:
            if delim in s:
                in_doc = False
            continue
        if s.startswith('"""') or s.startswith("'''") or s.startswith('r"""'):
            d = '"""' if '"""' in s else "'''"
            if s.count(d) == 1:
                in_doc = True
                delim = d
            continue
        if '"""' in s and s.count('"""') == 1:
            in_doc = True
            delim = '"""'
            continue
        if s == '' or s.startswith('#') or s.startswith('import ') or s.startswith('from '):
            continue
        if 'pragma: no cover' in line and ('else:' in line):
            continue
        out.append(i)
    return out


SKIP_FUNCS = ('expected_output', 'DumpEquations', 'Dump', 'LogInfo', 'GenerateDocEquations', 'CleanUpEquationBlock', 'WriteCSV',
              'register_standard_logs', 'get_file_base', '__init__doc')


def skipped_lines(text):
    """Lines inside functions that are debug output / test data / marked 'pragma: no cover' on their def line."""
    out = set()
    lines = text.split('\n')
    i = 0
    while i < len(lines):
        m = re.match(r'^(\s*)def (\w+)\(', lines[i])
        if m and (m.group(2) in SKIP_FUNCS or 'pragma: no cover' in lines[i]):
            indent = len(m.group(1))
            j = i + 1
            while j < len(lines) and (lines[j].strip() == '' or len(lines[j]) - len(lines[j].lstrip()) > indent):
                out.add(j)
                j += 1
            i = j
        else:
            i += 1
    return out


def in_string(code, pos):
    """True if position pos of the line lies inside a quoted literal."""
    q = None
    for ch in code[:pos]:
        if q is None and ch in '\'"':
            q = ch
        elif q is not None and ch == q:
            q = None
    return q is not None


def gen():
    os.makedirs(OUT, exist_ok=True)
    muts = []
    for f in sorted(FILES):
        text = open(os.path.join('/repo', f)).read()
        lines = text.split('\n')
        skip = skipped_lines(text)
        for i in code_lines(text):
            if i in skip:
                continue
            line = lines[i]
            code = line.split('#')[0] if "'#'" not in line and '"#"' not in line else line
            if 'Logger(' in line or 'raise ' in line and 'Error(' in line and False:
                continue
            if line.strip().startswith(('Logger(', 'Logger.', 'warnings.', 'print(')):
                continue
            for name, rx, rep in OPS:
                if rx is None:
                    continue
                for mi, m in enumerate(re.finditer(rx, code)):
                    if name not in ('plus->minus', 'minus->plus', 'num-up') and in_string(code, m.start()):
                        continue
                    if name == 'num-up' and in_string(code, m.start()) and ('raise ' in code or 'Logger' in code or 'desc' in code.lower()
                                                                          or 'format(' in code or "'{" in code):
                        continue
                    if rep is None:
                        new = re.sub(r'(continue|break)', 'pass', line, count=1)
                    elif callable(rep):
                        new = line[:m.start()] + rep(m) + line[m.end():]
                    else:
                        new = line[:m.start()] + rep + line[m.end():]
                    if new != line:
                        muts.append({'file': f, 'line': i + 1, 'op': name, 'occ': mi, 'old': line, 'new': new})
            if SIMPLE_STMT.match(line) and not line.strip().startswith(('self.AddVariable(\'LAG_F', )):
                indent = line[:len(line) - len(line.lstrip())]
                muts.append({'file': f, 'line': i + 1, 'op': 'stmt-deleted', 'occ': 0, 'old': line, 'new': indent + 'pass'})
    # de-duplicate
    seen = set()
    uniq = []
    for m in muts:
        k = (m['file'], m['line'], m['new'])
        if k in seen:
            continue
        seen.add(k)
        m['id'] = len(uniq)
        uniq.append(m)
    with open(os.path.join(OUT, 'mutants.jsonl'), 'w') as fh:
        for m in uniq:
            fh.write(json.dumps(m) + '\n')
    print('%d mutants' % len(uniq))


def make_copy(m):
    d = tempfile.mkdtemp(prefix='sfcv-mut-', dir='/var/tmp')
    subprocess.run('git -C /repo archive HEAD | tar -x -C %s' % d, shell=True, check=True)
    p = os.path.join(d, m['file'])
    lines = open(p).read().split('\n')
    at = m['line'] - 1
    if at >= len(lines) or lines[at] != m['old']:
        # the tree moved on (a later fix commit shifted lines): take the nearest line with the same text
        near = [j for j in range(max(0, at - 12), min(len(lines), at + 13)) if lines[j] == m['old']]
        assert near, (m, lines[at] if at < len(lines) else None)
        at = min(near, key=lambda j: abs(j - at))
    lines[at] = m['new']
    open(p, 'w').write('\n'.join(lines))
    return d


def run_suite(m):
    d = make_copy(m)
    try:
        r = subprocess.run([PY, '-m', 'py_compile', os.path.join(d, m['file'])], stdout=subprocess.PIPE, stderr=subprocess.STDOUT,
                           env=dict(os.environ, PYTHONDONTWRITEBYTECODE='1'))
        if r.returncode != 0:
            return m['id'], 'does-not-compile'
        try:
            r = subprocess.run([PY, '-m', 'pytest', '-q', '-x', '-p', 'no:cacheprovider', '--timeout=120',
                                '--deselect', 'sfc_models/deprecated/test_iterative_machine_generator.py::TestIterativeMachineGenerator::test_main'],
                               cwd=d, stdout=subprocess.PIPE, stderr=subprocess.STDOUT, text=True, timeout=400,
                               env=dict(os.environ, PYTHONDONTWRITEBYTECODE='1'))
        except subprocess.TimeoutExpired:
            return m['id'], 'suite-timeout'
        tail = r.stdout.strip().split('\n')[-1]
        if r.returncode == 0 and ' passed' in tail and 'failed' not in tail and 'error' not in tail:
            return m['id'], 'survives-suite'
        return m['id'], 'killed-by-suite'
    finally:
        shutil.rmtree(d, ignore_errors=True)


def load():
    return [json.loads(l) for l in open(os.path.join(OUT, 'mutants.jsonl'))]


def load_results():
    p = os.path.join(OUT, 'results.json')
    return json.load(open(p)) if os.path.exists(p) else {}


def save_results(r):
    json.dump(r, open(os.path.join(OUT, 'results.json'), 'w'), indent=0)


def suite(nproc):
    muts = load()
    res = load_results()
    todo = [m for m in muts if str(m['id']) not in res]
    print('%d mutants to run through the suite' % len(todo))
    with ProcessPoolExecutor(nproc) as ex:
        for n, (mid, verdict) in enumerate(ex.map(run_suite, todo, chunksize=1)):
            res[str(mid)] = {'suite': verdict}
            if n % 50 == 0:
                save_results(res)
                print(n, flush=True)
    save_results(res)
    c = {}
    for v in res.values():
        c[v['suite']] = c.get(v['suite'], 0) + 1
    print(c)


def checks(first, count, only_ids=None):
    muts = dict((m['id'], m) for m in load())
    res = load_results()
    surv = sorted(int(k) for k, v in res.items() if v['suite'] == 'survives-suite')
    done = 0
    todo = surv[first:first + count] if only_ids is None else only_ids
    for mid in todo:
        if only_ids is None and 'checks' in res[str(mid)]:
            continue
        if only_ids is not None:
            res[str(mid)]['first_round'] = {'checks': res[str(mid)].get('checks'), 'detected_by': res[str(mid)].get('detected_by')}
        m = muts[mid]
        d = make_copy(m)
        verdicts = {}
        detected_by = None
        try:
            for chk in FILES[m['file']]:
                try:
                    r = subprocess.run([os.path.join(HERE, 'check'), chk, '--tier', 'quick'], cwd=HERE, stdout=subprocess.PIPE,
                                       stderr=subprocess.STDOUT, text=True, timeout=1500,
                                       env=dict(os.environ, SFC_REPO=d, VERIF_NOEVIDENCE='1'))
                    rc = r.returncode
                    keys = sorted(set(re.findall(r'^\s+key=(\S+)', r.stdout, re.M)))[:3]
                except subprocess.TimeoutExpired:
                    rc, keys = 124, ['timeout']
                verdicts[chk] = {'exit': rc, 'keys': keys}
                if rc == 1:
                    detected_by = chk
                    break
        finally:
            shutil.rmtree(d, ignore_errors=True)
        res[str(mid)]['checks'] = verdicts
        res[str(mid)]['detected_by'] = detected_by
        save_results(res)
        done += 1
        print('%d %s:%d %s -> %s' % (mid, m['file'], m['line'], m['op'], detected_by or 'SURVIVES ' + str(dict((k, v['exit']) for k, v in verdicts.items()))), flush=True)


def report():
    muts = dict((m['id'], m) for m in load())
    res = load_results()
    c = {}
    for v in res.values():
        c[v['suite']] = c.get(v['suite'], 0) + 1
    lines = ['# Mutation analysis (tools/mutate.py)', '',
             'Single-line mechanical mutants of the library (operators: comparison / boolean / sign / index / constant / statement deletion ...).', '',
             '* mutants generated: %d' % len(muts)]
    for k, v in sorted(c.items()):
        lines.append('* %s: %d' % (k, v))
    surv = [(int(k), v) for k, v in res.items() if v['suite'] == 'survives-suite' and 'checks' in v]
    det = [x for x in surv if x[1].get('detected_by')]
    lines.append('* suite survivors run through the mapped quick checks: %d, detected by a check: %d, surviving both: %d' % (len(surv), len(det), len(surv) - len(det)))
    by = {}
    for mid, v in det:
        by[v['detected_by']] = by.get(v['detected_by'], 0) + 1
    lines.append('* detections per check: ' + ', '.join('%s %d' % kv for kv in sorted(by.items())))
    tri = {}
    tp = os.path.join(OUT, 'triage.json')
    if os.path.exists(tp):
        tri = json.load(open(tp))
    later = [(mid, v) for mid, v in det if 'first_round' in v and not (v['first_round'] or {}).get('detected_by')]
    lines += ['', 'The first round ran every suite survivor through the quick checks as they stood at /verif commit 3bfa64e. The survivors of that round were',
              'triaged by hand (mutation/triage.json); where the triage named a gap the check was extended and the mutant re-run',
              '(`tools/mutate.py recheck <ids>`): %d mutants are detected only since such an extension.' % len(later), '']
    cat = {}
    for mid, v in surv:
        if not v.get('detected_by'):
            k = tri.get(str(mid), 'UNTRIAGED').split()[0]
            cat[k] = cat.get(k, 0) + 1
    lines.append('Triage of the %d mutants that survive both: ' % (len(surv) - len(det)) + ', '.join('%s %d' % kv for kv in sorted(cat.items())) +
                 ' (EQ = equivalent: no observable behaviour changes; EQ-in-effect = behaviour changes only outside anything a property observes, e.g. a cap reached one sweep earlier;'
                 ' OOS = behaviour no listed property speaks about: log text, descriptions, diagnostics, calibration constants).')
    lines += ['', '## Mutants detected only after a check was extended', '', '| id | file:line | operator | new | detected by | what was added |', '|---|---|---|---|---|---|']
    for mid, v in sorted(later):
        m = muts[mid]
        keys = v['checks'][v['detected_by']]['keys']
        lines.append('| %d | %s:%d | %s | `%s` | %s `%s` | %s |' % (mid, m['file'].replace('sfc_models/', ''), m['line'], m['op'], m['new'].strip()[:60].replace('|', '/'),
                                                                  v['detected_by'], (keys or [''])[0], tri.get(str(mid), '').replace('GAP-CLOSED ', '')[:140]))
    lines += ['', '## Mutants that survive the suite AND the mapped checks', '', '| id | file:line | operator | old | new | triage |', '|---|---|---|---|---|---|']
    for mid, v in sorted(surv):
        if v.get('detected_by'):
            continue
        m = muts[mid]
        lines.append('| %d | %s:%d | %s | `%s` | `%s` | %s |' % (mid, m['file'].replace('sfc_models/', ''), m['line'], m['op'], m['old'].strip()[:70].replace('|', '/'),
                                                              m['new'].strip()[:70].replace('|', '/'), tri.get(str(mid), '')))
    open(os.path.join(OUT, 'REPORT.md'), 'w').write('\n'.join(lines) + '\n')
    print('\n'.join(lines[:12]))


if __name__ == '__main__':
    cmd = sys.argv[1]
    if cmd == 'gen':
        gen()
    elif cmd == 'suite':
        suite(int(sys.argv[2]) if len(sys.argv) > 2 else 16)
    elif cmd == 'checks':
        checks(int(sys.argv[2]) if len(sys.argv) > 2 else 0, int(sys.argv[3]) if len(sys.argv) > 3 else 10 ** 9)
    elif cmd == 'recheck':
        checks(0, 0, [int(x) for x in sys.argv[2].split(',')])
    elif cmd == 'report':
        report()
