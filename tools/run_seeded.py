#!/usr/bin/env python3
"""
Run a property's check against every seeded change filed for it (and, optionally, against the "unfix" patches)
and record the result in seeded/<name>/meta.json ("detected_by").

  tools/run_seeded.py <ID> [quick|thorough] [--check OTHER_ID]
"""
import glob
import json
import os
import re
import subprocess
import sys

HERE = os.path.dirname(os.path.dirname(os.path.abspath(__file__)))


def run(check_id, tier, patch):
    p = subprocess.run([os.path.join(HERE, 'tools', 'mutant.sh'), check_id, tier, 'patch', patch],
                       stdout=subprocess.PIPE, stderr=subprocess.STDOUT, text=True, cwd=HERE)
    keys = re.findall(r'^\s+key=(\S+)', p.stdout, re.M)
    summary = [l for l in p.stdout.split('\n') if l.startswith(check_id + ' ')]
    return p.returncode, sorted(set(keys)), (summary[-1] if summary else p.stdout[-300:])


def main():
    pid = sys.argv[1].upper()
    tier = 'quick'
    check_id = pid
    only = None
    args = sys.argv[2:]
    i = 0
    while i < len(args):
        if args[i] == '--check':
            check_id = args[i + 1].upper()
            i += 2
        elif args[i] == '--only':
            only = args[i + 1].split(',')
            i += 2
        else:
            tier = args[i]
            i += 1
    for d in sorted(glob.glob(os.path.join(HERE, 'seeded', pid + '-*'))):
        if only and os.path.basename(d).split('-')[1] not in only:
            continue
        patch = os.path.join(d, 'patch.diff')
        rc, keys, summary = run(check_id, tier, patch)
        meta_path = os.path.join(d, 'meta.json')
        meta = json.load(open(meta_path))
        det = meta.get('detected_by') or {}
        det['%s:%s' % (check_id, tier)] = {'exit': rc, 'violation_keys': keys[:6], 'detected': rc == 1}
        meta['detected_by'] = det
        json.dump(meta, open(meta_path, 'w'), indent=1)
        print('%-10s %s %s -> exit %d %s' % (os.path.basename(d), check_id, tier, rc, keys[:3]))


if __name__ == '__main__':
    main()
