#!/usr/bin/env python3
"""
Re-introduce every repaired defect (mutants/unfix-<commit>.diff reverses one "fix:" commit on a scratch copy) and run
the property's check against it; the check must exit 1.  Results are written to mutants/RESULTS.json.

  tools/run_unfix.py [quick|thorough]
"""
import json
import os
import re
import subprocess
import sys

HERE = os.path.dirname(os.path.dirname(os.path.abspath(__file__)))


def main():
    tier = sys.argv[1] if len(sys.argv) > 1 else 'quick'
    known = json.load(open(os.path.join(HERE, 'known_findings.json')))['findings']
    out = {}
    path = os.path.join(HERE, 'mutants', 'RESULTS.json')
    if os.path.exists(path):
        out = json.load(open(path))
    for k in known:
        if k['status'] != 'fixed':
            continue
        patch = os.path.join(HERE, 'mutants', 'unfix-%s.diff' % k['commit'])
        if not os.path.exists(patch):
            print('no patch for', k['commit'])
            continue
        p = subprocess.run([os.path.join(HERE, 'tools', 'mutant.sh'), k['property'], tier, 'patch', patch],
                           stdout=subprocess.PIPE, stderr=subprocess.STDOUT, text=True, cwd=HERE)
        keys = sorted(set(re.findall(r'^\s+key=(\S+)', p.stdout, re.M)))
        # keep the first replay file as a worked example (replays/examples/): it holds on the current tree and fails on the patched one
        mrep = re.search(r'^VIOLATION property=\S+ replay=(\S+)', p.stdout, re.M)
        if mrep and os.path.exists(mrep.group(1)):
            ex = os.path.join(HERE, 'replays', 'examples')
            os.makedirs(ex, exist_ok=True)
            import shutil
            shutil.copy(mrep.group(1), os.path.join(ex, '%s-unfix-%s.json' % (k['property'], k['commit'])))
        out['unfix-%s' % k['commit']] = {'property': k['property'], 'reintroduces': k['what'][:160], 'check': '%s:%s' % (k['property'], tier),
                                         'exit': p.returncode, 'detected': p.returncode == 1, 'violation_keys': keys[:6]}
        print('unfix-%s %s %s -> exit %d %s' % (k['commit'], k['property'], tier, p.returncode, keys[:3]))
        json.dump(out, open(path, 'w'), indent=1)


if __name__ == '__main__':
    main()
