#!/usr/bin/env python3
"""
Prepare the inputs of one wave of fresh sub-agents that try to break a property (one agent per property):
  /tmp/<prefix>-Cxx       scratch git worktree of /repo (created here; remove with `git -C /repo worktree remove --force`)
  /tmp/prop-Cxx.txt       the text of the property (all the agent gets about it)
  /tmp/avoidN-Cxx.txt     one-paragraph summaries of the changes already filed under seeded/ (so that a new wave attacks something else)
  /tmp/agent-promptN.txt  the instructions
Nothing from /verif is given to an agent except the summaries of earlier changes (which were written by agents, not by the checks).

  tools/wave_prompts.py <prefix> <N> [extra emphasis text file]
"""
import glob
import json
import os
import subprocess
import sys

HERE = os.path.dirname(os.path.dirname(os.path.abspath(__file__)))

PROMPT = """You are helping to evaluate a verification effort for the Python library brianr747/SFC_models (a generator of stock-flow consistent macroeconomic equation systems with an equation parser/reducer and an iterative solver). Your job is to play the role of a developer who introduces a REALISTIC, SUBTLE BUG.

Your private scratch checkout of the library is the git worktree at WORKTREE (a worktree of /repo at its current HEAD). Work ONLY inside that directory. Do NOT read, list or use anything under /verif, and do not modify /repo itself. There is no network.

The semantic property you must break is the following (this is all you get about it):

---
PROPTEXT
---

Task: produce up to TWO different, independent source changes (mutations) to the library code under WORKTREE/sfc_models (not to tests), each of which
  1. BREAKS the property above (for some inputs / histories / configurations in its quantifier), AND
  2. still imports fine and keeps the repository's existing test suite passing exactly as before: run
       cd WORKTREE && /venv/bin/python -m pytest -q -p no:cacheprovider --timeout=900
     Before any change the result is "221 passed, 1 failed" (the 1 failure, test_main in sfc_models/deprecated/test_iterative_machine_generator.py, is a pre-existing always-failing test and must stay the only failure). After each change the result must be the same: 221 passed, and only that 1 pre-existing failure.
  3. is REALISTIC (looks like a plausible refactoring slip, off-by-one, wrong variable, misplaced line, shared mutable state, wrong default, caching, a condition that is slightly too narrow or too broad, two cooperating sites that each look fine alone...), a few lines at most, and
  4. needs SOMETHING SPECIFIC to manifest -- a particular multi-step sequence of calls, an unusual but legitimate input (e.g. non-unit values, a particular declaration order, a name that is a prefix of another, a second country, a repeated call, a specific period k>=2, a particular configuration flag) -- NOT something that ordinary use or the simplest example would expose at once. Changes that make everything crash are useless.

For each change deliver, in the directory WORKTREE/_out/ (create it; use sub-directories m1/ and m2/):
  - patch.diff : the output of `git diff` for that change alone, relative to the worktree's HEAD (so that `git apply patch.diff` on a clean checkout reproduces it). Only library source files; do not include _out or test files.
  - demo.py : a small stand-alone program that takes the path of a checkout as its first argument (sys.argv[1], inserted at sys.path[0] before importing sfc_models), exercises the library through its public API, and exits 0 when the property holds / exits 1 (printing what went wrong) when it is violated. It must exit 0 on the clean checkout and exit 1 with the change applied. Run it with: PYTHONDONTWRITEBYTECODE=1 /venv/bin/python demo.py WORKTREE
  - note.md : 5-15 lines: which property clause is broken, what the change is, what exactly is needed for it to manifest, and the exact commands you ran with their results (test suite with change: N passed; demo clean: exit 0; demo mutated: exit 1).

Procedure advice: read the anchored code first; design the change; apply it; run the suite; write the demo; verify demo fails with change; `git diff > _out/mX/patch.diff`; then `git checkout -- sfc_models` to restore and verify the demo passes on the clean tree; do the second change the same way. Leave the worktree CLEAN (no modified tracked files) at the end -- only the untracked _out/ directory remains. Do not commit anything. Set PYTHONDONTWRITEBYTECODE=1 when running python so no __pycache__ litter builds up (or delete it).

IMPORTANT - other developers have already delivered the changes summarised in the file AVOIDFILE (read it). Do NOT repeat those: attack a DIFFERENT mechanism, function, file or clause of the property than they did (the same file is fine if the function and the failure mode are different). Prefer changes whose effect is a silently wrong NUMBER or a silently wrong/omitted equation over changes that only make something raise an exception. EMPHASIS

The two changes should attack different mechanisms/clauses of the property if possible. If you truly can only find one, deliver one. In your final answer, summarise each change in 3-4 lines (file, what, what it needs to manifest) and confirm the verification commands' results.
"""


def main():
    prefix, n = sys.argv[1], sys.argv[2]
    emphasis = open(sys.argv[3]).read().strip() if len(sys.argv) > 3 else ''
    props = [json.loads(l) for l in open(os.path.join(HERE, 'properties.jsonl'))]
    avoid = {}
    for d in sorted(glob.glob(os.path.join(HERE, 'seeded', 'C*-m*'))):
        pid = os.path.basename(d).split('-')[0]
        note = open(os.path.join(d, 'note.md')).read() if os.path.exists(os.path.join(d, 'note.md')) else ''
        diff = open(os.path.join(d, 'patch.diff')).read()
        files = sorted(set(l[6:] for l in diff.split('\n') if l.startswith('+++ b/')))
        avoid.setdefault(pid, []).append('- (%s) %s' % (', '.join(files), ' '.join(note.split())[:380]))
    only = os.environ.get('WAVE_ONLY', '').split(',') if os.environ.get('WAVE_ONLY') else None
    for p in props:
        pid = p['id']
        if only and pid not in only:
            continue
        txt = ['%s - %s' % (pid, p['title']), '', 'Statement: ' + p['statement'], '', 'Quantifier: %s (%s)' % (p['quantifier']['text'], ', '.join(p['quantifier']['over'])),
               '', 'Why the existing tests cannot settle it: ' + p['why_tests_cant'], '', 'Anchors in the code:', json.dumps(p['anchors'], indent=1)]
        open('/tmp/prop-%s.txt' % pid, 'w').write('\n'.join(txt) + '\n')
        open('/tmp/avoid%s-%s.txt' % (n, pid), 'w').write('\n'.join(avoid.get(pid, [])) + '\n')
        wt = '/tmp/%s-%s' % (prefix, pid)
        if not os.path.exists(wt):
            subprocess.run(['git', '-C', '/repo', 'worktree', 'add', '-q', '--detach', wt, 'HEAD'], check=True)
    open('/tmp/agent-prompt%s.txt' % n, 'w').write(PROMPT.replace('EMPHASIS', emphasis))
    print('prepared', len(props), 'worktrees /tmp/%s-Cxx' % prefix)


if __name__ == '__main__':
    main()
